"""Engine B - path facts over statement blocks (no CFG library needed: kyupy kernels use if/elif/else,
while, for, break, continue, return only).

guards_of(stmt, root)   dominating conditions of a statement inside a loop/function body:
                        enclosing if-tests with polarity plus negated tests of preceding early exits.
enum_paths(stmts)       all acyclic statement paths through a block (both arms of every if; loops 0/1 times).
"""
from __future__ import annotations

import ast

from .core import ModelError, norm


def cz(x):
    """Compact normalised text. Indentation is dropped, but a line that returns to an outer (non-base) block level after a
    nested block is prefixed with a dedent marker, so that moving a statement into or out of a nested block changes the text."""
    lines = norm(x).split('\n')
    if len(lines) == 1:
        return lines[0].replace(' ', '')
    out = []
    prev = base = len(lines[0]) - len(lines[0].lstrip(' '))
    for ln in lines:
        ind = len(ln) - len(ln.lstrip(' '))
        if ind < prev and ind > base:
            out.append('\u00a6' * ((prev - ind) // 4))
        out.append(ln.replace(' ', ''))
        prev = ind
    return ''.join(out)


def czs(src):
    """Canonical compact text of a source snippet (one statement), through the same ast.unparse as cz()."""
    import textwrap
    return cz(ast.parse(textwrap.dedent(src)).body[0])


def _ends_with_exit(block):
    return bool(block) and isinstance(block[-1], (ast.Continue, ast.Break, ast.Return, ast.Raise))


def guards_of(node, root_body):
    """[(test_node, polarity)] that must hold for control to reach `node`, relative to the statement list
    `root_body` (e.g. a loop body). Early exits (`if C: ...; break/continue/return`) before the statement
    contribute (C, False)."""
    conds = []

    def find(block, acc):
        for i, st in enumerate(block):
            if st is node or any(n is node for n in ast.walk(st)):
                pre = list(acc)
                for prev in block[:i]:
                    if isinstance(prev, ast.If):
                        if _ends_with_exit(prev.body) and not _ends_with_exit(prev.orelse):
                            pre.append((prev.test, False))
                        elif prev.orelse and _ends_with_exit(prev.orelse) and not _ends_with_exit(prev.body):
                            pre.append((prev.test, True))
                if st is node:
                    return pre
                if isinstance(st, ast.If):
                    if any(n is node for x in st.body for n in ast.walk(x)):
                        return find(st.body, pre + [(st.test, True)])
                    if any(n is node for x in st.orelse for n in ast.walk(x)):
                        return find(st.orelse, pre + [(st.test, False)])
                    if any(n is node for n in ast.walk(st.test)):
                        return pre
                if isinstance(st, (ast.For, ast.While)):
                    if any(n is node for x in st.body for n in ast.walk(x)):
                        return find(st.body, pre + [(st, 'loop')])
                    return pre
                return pre
        return None
    r = find(root_body, [])
    if r is None:
        raise ModelError('guards_of: node not inside the given block')
    return r


def guard_texts(node, root_body):
    out = []
    for t, pol in guards_of(node, root_body):
        if pol == 'loop':
            out.append(('loop:' + cz(t.target if isinstance(t, ast.For) else t.test), True))
        else:
            out.append((cz(t), pol))
    return out


def enum_paths(stmts, prefix=()):
    """Yield (path, terminated) where path is a list of ('cond', test, polarity) / ('stmt', st) /
    ('loop'|'skiploop', st) / ('ret'|'break'|'continue', st)."""
    if not stmts:
        yield list(prefix), None
        return
    st, rest = stmts[0], stmts[1:]
    if isinstance(st, (ast.Return, ast.Break, ast.Continue)):
        kind = {'Return': 'ret', 'Break': 'break', 'Continue': 'continue'}[type(st).__name__]
        yield list(prefix) + [(kind, st)], kind
        return
    if isinstance(st, ast.If):
        for branch, pol in ((st.body, True), (st.orelse, False)):
            for p, done in enum_paths(list(branch), tuple(prefix) + (('cond', st.test, pol),)):
                if done:
                    yield p, done
                else:
                    yield from enum_paths(rest, tuple(p))
        return
    if isinstance(st, (ast.For, ast.While)):
        yield from enum_paths(rest, tuple(prefix) + (('skiploop', st),))
        for p, done in enum_paths(list(st.body), tuple(prefix) + (('loop', st),)):
            if done == 'ret':
                yield p, done
            else:
                yield from enum_paths(rest, tuple(p))
        return
    yield from enum_paths(rest, tuple(prefix) + (('stmt', st),))
