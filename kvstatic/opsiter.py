"""The iterable of a dispatch loop, evaluated.

`for op, o0, i0, i1, i2, i3 in <iterable>:` must visit every row of the op table exactly once, in op-list order (the order is the schedule:
C07 / C17), with its first six columns. When <iterable> is the plain `self.ops[:, :6]` this is read off the syntax; any other spelling - a
helper method, a generator that walks the level table, a slice arithmetic - is evaluated here (Engine M with the array stand-in) on op
tables of several sizes x every way the level table can cut them, and the yielded sequence is compared with the rows themselves."""
from __future__ import annotations

import ast

from .core import ModelError
from . import minieval
from .minieval import NS


def _partitions(n):
    """level tables for n ops: one level, one op per level, and a few mixed cuts"""
    cuts = [[0], list(range(n))]
    if n >= 3:
        cuts += [[0, 1], [0, n - 1], [0, n // 2], [0, 1, n // 2, n - 1]]
    out = []
    for c in cuts:
        c = sorted(set(c))
        if c not in out:
            out.append(c)
    return out


def is_plain(it):
    return isinstance(it, ast.Subscript) and ast.unparse(it).replace(' ', '').endswith('[:,:6]')


def evaluate(it, fn):
    """(ok, message, evaluations) for the iterable expression `it` of a dispatch loop inside method `fn`"""
    from .ndarr import NDArr, numpy_ns
    cls = getattr(fn, '_parent', None)
    while cls is not None and not isinstance(cls, ast.ClassDef):
        cls = getattr(cls, '_parent', None)
    modtree = getattr(cls, '_parent', None) if cls is not None else None
    nev = 0
    for n in (1, 2, 5, 12):
        rows = [[100 * r + c for c in range(9)] for r in range(n)]
        want = [r[:6] for r in rows]
        for starts in _partitions(n):
            stops = starts[1:] + [n]
            me = NS(ops=NDArr(rows), level_starts=NDArr(starts), level_stops=NDArr(stops), m=2, mdim=1)
            genv = {'np': numpy_ns()}
            if isinstance(cls, ast.ClassDef):
                minieval.bind_class(me, cls, genv)
            if isinstance(modtree, ast.Module):
                minieval.module_functions(modtree, genv)
            env = dict(genv)
            env['self'] = me
            nev += 1
            try:
                got = minieval.ev(it, env)
                seq = []
                def flat(x):
                    # `for op, (o0, i0, ..) in zip(rows[:, 0], rows[:, 1:])`: an item may be nested the way the loop target is
                    if isinstance(x, (tuple, list)) or getattr(type(x), '_kv_array', False):
                        for y in x:
                            yield from flat(y)
                    else:
                        yield int(x)
                for r in got:
                    seq.append(list(flat(r)))
            except ModelError:
                raise
            except (IndexError, KeyError, TypeError, AttributeError, ValueError) as e:
                return False, f'evaluating the iterable raises {type(e).__name__}: {e} ({n} ops, levels start at {starts})', nev
            if seq != want:
                rows_got = [r[0] // 100 if r else '?' for r in seq]
                if [r[:6] for r in seq] == want and any(len(r) != 6 for r in seq):
                    what = f'yields rows of {len(seq[0])} columns, the loop needs the first six'
                elif sorted(map(tuple, seq)) == sorted(map(tuple, want)):
                    what = f'visits the ops in the order {rows_got}, not in op-list order'
                else:
                    what = f'visits the op rows {rows_got}; every one of the {n} ops must be visited exactly once, in order'
                return False, f'{what} ({n} ops, levels start at {starts}, stop at {stops})', nev
    return True, '', nev
