"""Engine A - truth-table abstract interpreter.

Exact finite abstract domain: every array-valued program variable is mapped to the complete
truth table of the function it computes from the operation's operands. A table is a python int
used as a bitset with one bit per operand combination ("row").

Value kinds
  P      one bit-plane / boolean mask: bitset over rows (numpy bool arrays, and the byte planes of
         bit-parallel arrays, where all 8 bits of a byte are independent lanes with the same formula)
  U8     a uint8-valued array, bit-blasted into 8 planes (for the mv_* functions)
  Arr    a bit-parallel array with `n` planes on its second-to-last axis
  View   the result of a bare subscript  arr[..., j, :]  (aliases the array, numpy semantics)
  tuple  *ins
  int    python constants

Anything outside this subset raises ModelError (exit 2); the engine never guesses.
No kyupy function is called, no numpy array exists.
"""
from __future__ import annotations

import ast

from .core import ModelError
from .astutil import attr_chain, body_no_doc, is_name


class LaneViolation(Exception):
    """The analysed code does something that is not lane-wise / not element-wise / out of range."""
    def __init__(self, msg, node=None):
        super().__init__(msg)
        self.node = node


class ShapeViolation(LaneViolation):
    """An in-place update whose target has the shape of fewer operands than the value: numpy cannot broadcast
    the value into the target when that operand is the larger one."""


ANY = 'ANY'     # provenance marker: array already has the full broadcast shape (e.g. `out`)


def prov_of(x):
    if isinstance(x, (P, U8, Arr)):
        return x.prov
    if isinstance(x, View):
        return x.arr.prov
    return frozenset()


class P:
    __slots__ = ('v', 'prov')

    def __init__(self, v, prov=frozenset()):
        self.v = v
        self.prov = prov


class U8:
    __slots__ = ('b', 'prov')

    def __init__(self, planes, prov=frozenset()):
        self.b = list(planes)
        self.prov = prov
        assert len(self.b) == 8

    def copy(self):
        return U8(self.b, self.prov)


class Arr:
    __slots__ = ('p', 'name', 'prov')

    def __init__(self, planes, name='?', prov=frozenset({ANY})):
        self.p = list(planes)
        self.name = name
        self.prov = prov

    def copy(self):
        return Arr(self.p, self.name, self.prov)


class View:
    __slots__ = ('arr', 'j')

    def __init__(self, arr, j):
        self.arr, self.j = arr, j


class Space:
    """The operand-combination space: nrows rows, MASK = all rows."""
    def __init__(self, nrows):
        self.nrows = nrows
        self.MASK = (1 << nrows) - 1

    def var_plane(self, radix, k, j, bit):
        """Rows (mixed radix `radix`, k operands) where bit `bit` of operand j's digit is set."""
        v = 0
        for row in range(self.nrows):
            digit = (row // (radix ** j)) % radix
            if (digit >> bit) & 1:
                v |= 1 << row
        return v


_space_cache = {}


def operand_planes(radix, k, nplanes):
    """planes[j][bit] for k operands over values 0..radix-1."""
    key = (radix, k, nplanes)
    if key not in _space_cache:
        sp = Space(radix ** k)
        _space_cache[key] = (sp, [[sp.var_plane(radix, k, j, b) for b in range(nplanes)] for j in range(k)])
    return _space_cache[key]


class Interp:
    def __init__(self, space: Space, funcs=None, consts=None, max_planes=None):
        self.sp = space
        self.funcs = funcs or {}      # name -> FunctionDef available for inlining
        self.consts = consts or {}    # module-level int constants (ZERO, UNKNOWN, ...)
        self.steps = 0
        self.trace = []               # names of functions interpreted

    # ---- coercions
    def as_plane(self, v, node):
        M = self.sp.MASK
        if isinstance(v, P):
            return v.v
        if isinstance(v, View):
            return self.read_view(v, node)
        if isinstance(v, bool):
            return M if v else 0
        if isinstance(v, int):
            if v == 0:
                return 0
            if v in (0xff, 255, -1):
                return M
            raise LaneViolation(f'constant {v:#x} combined with a bit-plane is not lane-uniform', node)
        raise ModelError(f'expected plane, got {type(v).__name__} at line {getattr(node, "lineno", "?")}: {ast.unparse(node)[:80]}')

    def as_u8(self, v, node):
        if isinstance(v, U8):
            return v
        if isinstance(v, int) and not isinstance(v, bool):
            M = self.sp.MASK
            if not 0 <= v <= 255:
                v &= 0xff
            return U8([M if (v >> b) & 1 else 0 for b in range(8)])
        raise ModelError(f'expected uint8 array, got {type(v).__name__}: {ast.unparse(node)[:80]}')

    def read_view(self, v: View, node):
        if not 0 <= v.j < len(v.arr.p):
            raise LaneViolation(f'plane index {v.j} out of range for array {v.arr.name} with {len(v.arr.p)} planes', node)
        return v.arr.p[v.j]

    # ---- expressions
    def ev(self, node, env):
        self.steps += 1
        M = self.sp.MASK
        if isinstance(node, ast.Constant):
            if isinstance(node.value, (int, bool)):
                return node.value
            raise ModelError(f'constant {node.value!r}')
        if isinstance(node, ast.Name):
            if node.id in env:
                return env[node.id]
            if node.id in self.consts:
                return self.consts[node.id]
            raise ModelError(f'unbound name {node.id} at line {node.lineno}')
        if isinstance(node, ast.Attribute):
            ch = attr_chain(node)
            if ch in env:
                return env[ch]
            if ch and ch.split('.')[-1] in self.consts and ch.split('.')[0] in ('logic',):
                return self.consts[ch.split('.')[-1]]
            raise ModelError(f'unbound attribute {ch}')
        if isinstance(node, ast.Subscript):
            base = self.ev(node.value, env)
            return self.subscript(base, node, env)
        if isinstance(node, ast.UnaryOp) and isinstance(node.op, ast.Invert):
            v = self.ev(node.operand, env)
            if isinstance(v, U8):
                return U8([~x & M for x in v.b], v.prov)
            if isinstance(v, int) and not isinstance(v, bool):
                return ~v
            return P(~self.as_plane(v, node) & M, prov_of(v))
        if isinstance(node, ast.BinOp):
            a = self.ev(node.left, env)
            b = self.ev(node.right, env)
            return self.binop(node.op, a, b, node)
        if isinstance(node, ast.Compare) and len(node.ops) == 1:
            a = self.ev(node.left, env)
            b = self.ev(node.comparators[0], env)
            if isinstance(node.ops[0], (ast.Eq, ast.NotEq)):
                ua, ub = self.as_u8(a, node), self.as_u8(b, node)
                eq = M
                for x, y in zip(ua.b, ub.b):
                    eq &= ~(x ^ y) & M
                return P(eq if isinstance(node.ops[0], ast.Eq) else ~eq & M, prov_of(a) | prov_of(b))
            raise ModelError(f'comparison {ast.unparse(node)}')
        if isinstance(node, ast.Call):
            return self.call(node, env)
        if isinstance(node, ast.Tuple):
            return tuple(self.ev(e, env) for e in node.elts)
        raise ModelError(f'expression {type(node).__name__}: {ast.unparse(node)[:80]} (line {getattr(node, "lineno", "?")})')

    def subscript(self, base, node, env):
        sl = node.slice
        if isinstance(base, tuple):
            if isinstance(sl, ast.Constant) and isinstance(sl.value, int):
                try:
                    return base[sl.value]
                except IndexError:
                    raise LaneViolation(f'operand index {sl.value} out of range', node)
            if isinstance(sl, ast.Slice) and sl.step is None:
                lo = 0 if sl.lower is None else self.ev(sl.lower, env)
                hi = None if sl.upper is None else self.ev(sl.upper, env)
                if isinstance(lo, int) and (hi is None or isinstance(hi, int)):
                    return base[lo:hi]
            raise ModelError(f'tuple subscript {ast.unparse(node)}')
        if isinstance(base, Arr):
            # accepted: a[..., j, :]   (plane j)   and a[...] (whole array)
            if isinstance(sl, ast.Constant) and sl.value is Ellipsis:
                return base
            if isinstance(sl, ast.Tuple) and len(sl.elts) == 3 and isinstance(sl.elts[0], ast.Constant) and sl.elts[0].value is Ellipsis \
                    and isinstance(sl.elts[2], ast.Slice) and sl.elts[2].lower is None and sl.elts[2].upper is None and sl.elts[2].step is None:
                j = self.ev(sl.elts[1], env)
                if isinstance(j, int) and not isinstance(j, bool):
                    return View(base, j)
            raise LaneViolation(f'index {ast.unparse(node)} on a bit-parallel array is not a whole-plane access '
                                f'(lane-/shape-dependent)', node)
        if isinstance(base, U8):
            if isinstance(sl, ast.Constant) and sl.value is Ellipsis:
                return base
            raise LaneViolation(f'index {ast.unparse(node)} on a multi-valued array is not element-wise', node)
        raise ModelError(f'subscript on {type(base).__name__}: {ast.unparse(node)[:80]}')

    def binop(self, op, a, b, node):
        M = self.sp.MASK
        pv = prov_of(a) | prov_of(b)
        if isinstance(a, View):
            a = P(self.read_view(a, node), a.arr.prov)
        if isinstance(b, View):
            b = P(self.read_view(b, node), b.arr.prov)
        if isinstance(op, (ast.LShift, ast.RShift)):
            if isinstance(a, U8) and isinstance(b, int):
                if isinstance(op, ast.LShift):
                    return U8(([0] * b + a.b)[:8], a.prov)
                return U8((a.b[b:] + [0] * b)[:8], a.prov)
            if isinstance(a, int) and isinstance(b, int):
                return a << b if isinstance(op, ast.LShift) else a >> b
            raise ModelError(f'shift {ast.unparse(node)[:60]}')
        if isinstance(a, int) and isinstance(b, int) and not isinstance(a, bool) and not isinstance(b, bool):
            return {ast.BitAnd: a & b, ast.BitOr: a | b, ast.BitXor: a ^ b}.get(type(op)) if isinstance(op, (ast.BitAnd, ast.BitOr, ast.BitXor)) \
                else self._arith(op, a, b, node)
        if not isinstance(op, (ast.BitAnd, ast.BitOr, ast.BitXor)):
            raise LaneViolation(f'operator {type(op).__name__} on logic arrays is not one of & | ^', node)
        if isinstance(a, Arr) or isinstance(b, Arr):   # whole bit-parallel arrays: plane by plane, result is a fresh array
            f = {ast.BitAnd: lambda x, y: x & y, ast.BitOr: lambda x, y: x | y, ast.BitXor: lambda x, y: x ^ y}[type(op)]
            if isinstance(a, Arr) and isinstance(b, Arr):
                if len(a.p) != len(b.p):
                    raise LaneViolation('whole-array operation between arrays with different plane counts', node)
                return Arr([f(x, y) & M for x, y in zip(a.p, b.p)], name='tmp', prov=pv)
            arr, other = (a, b) if isinstance(a, Arr) else (b, a)
            o = self.as_plane(other, node) if not isinstance(other, int) else (M if other & 1 else 0)
            if isinstance(other, int) and other not in (0, 0xff, -1):
                raise ModelError(f'whole-array operation with constant {other}')
            if isinstance(other, int):
                o = M if other else 0
            return Arr([f(x, o) & M for x in arr.p], name='tmp', prov=pv)
        if isinstance(a, U8) or isinstance(b, U8):
            if isinstance(a, P) or isinstance(b, P):
                # bool array combined with uint8 array: bool is promoted to 0/1
                pa = a if isinstance(a, U8) else (U8([a.v] + [0] * 7) if isinstance(a, P) else self.as_u8(a, node))
                pb = b if isinstance(b, U8) else (U8([b.v] + [0] * 7) if isinstance(b, P) else self.as_u8(b, node))
            else:
                pa, pb = self.as_u8(a, node), self.as_u8(b, node)
            f = {ast.BitAnd: lambda x, y: x & y, ast.BitOr: lambda x, y: x | y, ast.BitXor: lambda x, y: x ^ y}[type(op)]
            return U8([f(x, y) & M for x, y in zip(pa.b, pb.b)], pv)
        x, y = self.as_plane(a, node), self.as_plane(b, node)
        if isinstance(op, ast.BitAnd):
            return P(x & y, pv)
        if isinstance(op, ast.BitOr):
            return P(x | y, pv)
        return P(x ^ y, pv)

    def _arith(self, op, a, b, node):
        if isinstance(op, ast.Add):
            return a + b
        if isinstance(op, ast.Sub):
            return a - b
        if isinstance(op, ast.Mult):
            return a * b
        raise ModelError(f'arith {ast.unparse(node)[:60]}')

    # ---- numpy primitives and inlined calls
    def call(self, node, env):
        name = attr_chain(node.func) or ''
        M = self.sp.MASK
        kw = {k.arg: k.value for k in node.keywords}
        short = name.split('.')[-1]
        if name in ('np.bitwise_xor', 'np.bitwise_or', 'np.bitwise_and', 'numpy.bitwise_xor', 'numpy.bitwise_or', 'numpy.bitwise_and'):
            if len(node.args) != 2:
                raise ModelError(f'{name} with {len(node.args)} positional args')
            a = self.ev(node.args[0], env)
            b = self.ev(node.args[1], env)
            op = {'bitwise_xor': ast.BitXor(), 'bitwise_or': ast.BitOr(), 'bitwise_and': ast.BitAnd()}[short]
            r = self.binop(op, a, b, node)
            extra = set(kw) - {'out', 'where'}
            if extra:
                raise ModelError(f'{name} keyword {extra}')
            if 'out' in kw:
                out = self.ev(kw['out'], env)
                if isinstance(out, View) and 'where' not in kw:      # result written into one plane of a bit-parallel array
                    out.arr.p[out.j] = self.as_plane(r, node)
                    return out                                       # numpy returns the out buffer itself: an alias of that plane
                if isinstance(out, Arr) and isinstance(r, Arr) and 'where' not in kw:
                    if len(out.p) != len(r.p):
                        raise LaneViolation('whole-array out= between arrays with different plane counts', node)
                    out.p[:] = list(r.p)
                    return out
                if not isinstance(out, U8) or not isinstance(r, U8):
                    raise ModelError(f'{name}(out=) on non-uint8 values')
                if 'where' in kw:
                    w = self.as_plane(self.ev(kw['where'], env), node)
                    out.b = [(x & w) | (o & ~w & M) for x, o in zip(r.b, out.b)]
                else:
                    out.b = list(r.b)
                return out
            if 'where' in kw:
                raise LaneViolation(f'{name}(where=) without out= leaves elements uninitialised', node)
            return r
        if name in ('np.putmask', 'numpy.putmask'):
            if len(node.args) != 3:
                raise ModelError('putmask arity')
            out = self.ev(node.args[0], env)
            m = self.as_plane(self.ev(node.args[1], env), node)
            val = self.as_u8(self.ev(node.args[2], env), node)
            if not isinstance(out, U8):
                raise ModelError('putmask target is not a uint8 array')
            out.b = [(x & m) | (o & ~m & M) for x, o in zip(val.b, out.b)]
            return None
        if short in self.funcs and (name == short or name.split('.')[0] in ('logic',)):
            args = []
            for a in node.args:
                if isinstance(a, ast.Starred):
                    v = self.ev(a.value, env)
                    args += list(v)
                else:
                    args.append(self.ev(a, env))
            if kw:
                raise ModelError(f'keyword call of inlined function {name}')
            return self.run(self.funcs[short], args)
        raise LaneViolation(f'call to {name or ast.unparse(node.func)} inside a logic operator is not one of the '
                            f'element-wise primitives the engine models', node)

    # ---- statements
    def store(self, target, value, env, node, aug=None):
        M = self.sp.MASK
        if isinstance(target, ast.Name):
            cur = env.get(target.id)
            if aug is not None:
                if isinstance(cur, View):
                    old = self.read_view(cur, node)
                    new = self.binop(aug, P(old), value, node)
                    cur.arr.p[cur.j] = self.as_plane(new, node)
                    return
                if isinstance(cur, U8):
                    self.shape_check(cur, value, node, target.id)
                    new = self.binop(aug, cur, value, node)
                    cur.b = list(self.as_u8(new, node).b)   # in-place on the array object
                    return
                if isinstance(cur, Arr):     # in place on the array object the name is bound to (possibly an operand!)
                    new = self.binop(aug, cur, value, node)
                    cur.p[:] = list(new.p)
                    return
                if cur is None:
                    raise ModelError(f'augmented assignment to unbound {target.id}')
                if isinstance(cur, P):
                    self.shape_check(cur, value, node, target.id)
                    r = self.binop(aug, cur, value, node)
                    r.prov = cur.prov            # numpy updates the existing array in place: its shape does not grow
                    env[target.id] = r
                    return
                env[target.id] = self.binop(aug, cur, value, node)
                return
            env[target.id] = value
            return
        if isinstance(target, (ast.Tuple, ast.List)) and aug is None:
            if not isinstance(value, tuple):
                raise ModelError(f'unpacking a {type(value).__name__}')
            if len(value) != len(target.elts) or any(isinstance(t, ast.Starred) for t in target.elts):
                raise LaneViolation(f'`{ast.unparse(node)[:80]}`: cannot unpack {len(value)} operand(s) into {len(target.elts)} names '
                                    f'(ValueError for this number of operands)', node)
            for t, v in zip(target.elts, value):
                self.store(t, v, env, node)
            return
        if isinstance(target, ast.Subscript):
            base = self.ev(target.value, env)
            ref = self.subscript(base, target, env)
            if isinstance(ref, View):
                if not 0 <= ref.j < len(ref.arr.p):
                    raise LaneViolation(f'plane index {ref.j} out of range for array {ref.arr.name} with {len(ref.arr.p)} planes', node)
                if aug is not None:
                    value = self.binop(aug, P(ref.arr.p[ref.j]), value, node)
                ref.arr.p[ref.j] = self.as_plane(value, node)
                return
            if isinstance(ref, Arr):       # a[...] = x
                if isinstance(value, Arr):
                    if aug is not None:
                        value = self.binop(aug, ref, value, node)
                    if len(value.p) != len(ref.p):
                        raise LaneViolation('whole-array copy between arrays with different plane counts', node)
                    ref.p[:] = list(value.p)
                    return
                pv = self.as_plane(value, node)
                if aug is not None:
                    ref.p[:] = [self.as_plane(self.binop(aug, P(x), P(pv), node), node) for x in ref.p]
                else:
                    ref.p[:] = [pv] * len(ref.p)
                return
            if isinstance(ref, U8):        # out[...] = x  on a multi-valued array
                if aug is not None:
                    value = self.binop(aug, ref, value, node)
                if isinstance(value, P):
                    value = U8([value.v] + [0] * 7)
                ref.b = list(self.as_u8(value, node).b)
                return
        raise ModelError(f'store target {ast.unparse(target)[:60]}')

    def shape_check(self, cur, value, node, name):
        tp, vp = prov_of(cur), prov_of(value)
        if ANY in tp or vp <= tp:
            return
        raise ShapeViolation(f'`{ast.unparse(node)[:80]}` updates `{name}` in place: it has the shape of operand(s) {sorted(map(str, tp))} but the value '
                             f'has the shape of operand(s) {sorted(map(str, vp))}; numpy cannot broadcast into the target when a later operand is larger '
                             f'(ValueError: non-broadcastable output operand)', node)

    def exec_block(self, stmts, env):
        for i, st in enumerate(stmts):
            if isinstance(st, ast.If):
                w = self.whole_array_test(st.test, env)
                if w is not None:
                    return self.split_worlds(st, w, stmts[i + 1:], env)
            r = self.exec_stmt(st, env)
            if r is not _NORET:
                return r
        return _NORET

    def whole_array_test(self, test, env):
        """`np.any(x)` / `x.any()` / `not np.any(x)` -> (plane of x, polarity): a condition on the *whole array*."""
        pol = True
        while isinstance(test, ast.UnaryOp) and isinstance(test.op, ast.Not):
            pol = not pol
            test = test.operand
        if isinstance(test, ast.Call) and not test.keywords:
            nm = attr_chain(test.func) or ''
            arg = None
            if nm in ('np.any', 'numpy.any', 'any') and len(test.args) == 1:
                arg = test.args[0]
            elif isinstance(test.func, ast.Attribute) and test.func.attr == 'any' and not test.args:
                arg = test.func.value
            if arg is not None:
                v = self.ev(arg, env)
                if isinstance(v, (P, View)):
                    return self.as_plane(v, test), pol
                if isinstance(v, U8):
                    x = 0
                    for b in v.b:
                        x |= b
                    return x, pol
        return None

    def split_worlds(self, st, w, rest, env):
        """A branch on np.any(x): lanes are combined in one array, so a lane where x is false may run through either arm
        depending on the *other* lanes. Both arms (each followed by the rest of the block) are run; on the rows where x is
        false they must produce the same arrays, otherwise the result of a lane depends on its neighbours."""
        import copy as _copy
        x, pol = w
        M = self.sp.MASK
        env_some = env                       # world "some lane has x": every row can occur
        env_none = _copy.deepcopy(env)       # world "no lane has x": only rows with x false occur
        arm_some, arm_none = (st.body, st.orelse) if pol else (st.orelse, st.body)
        r_some = self.exec_block(list(arm_some) + list(rest), env_some)
        r_none = self.exec_block(list(arm_none) + list(rest), env_none)
        rows = M & ~x
        for name, a in env_some.items():
            b = env_none.get(name)
            pa = a.p if isinstance(a, Arr) else a.b if isinstance(a, U8) else None
            pb = b.p if isinstance(b, Arr) else b.b if isinstance(b, U8) else None
            if pa is None or pb is None or not (name == 'out' or name in getattr(self, 'observed', ('out',))):
                continue
            for j, (u, v) in enumerate(zip(pa, pb)):
                if (u ^ v) & rows:
                    row = ((u ^ v) & rows).bit_length() - 1
                    raise LaneViolation(f'`if {ast.unparse(st.test)}` tests the whole array: for operand combination #{row} (where the tested value is false) '
                                        f'`{name}` differs between the two arms, so the result of a lane depends on what the other lanes of the same array hold', st)
        return r_some

    def static_test(self, test, env):
        """truth value of a test over Python ints known at analysis time (len of the operand tuple, constants), else None"""
        def val(e):
            if isinstance(e, ast.Constant) and type(e.value) is int:
                return e.value
            if isinstance(e, ast.Call) and isinstance(e.func, ast.Name) and e.func.id == 'len' and len(e.args) == 1 and not e.keywords:
                try:
                    v = self.ev(e.args[0], env)
                except ModelError:
                    return None
                return len(v) if isinstance(v, tuple) else None
            return None
        if isinstance(test, ast.Compare) and len(test.ops) == 1:
            a, b = val(test.left), val(test.comparators[0])
            if a is None or b is None:
                return None
            return {ast.Eq: a == b, ast.NotEq: a != b, ast.Lt: a < b, ast.LtE: a <= b, ast.Gt: a > b, ast.GtE: a >= b}.get(type(test.ops[0]))
        if isinstance(test, ast.UnaryOp) and isinstance(test.op, ast.Not):
            t = self.static_test(test.operand, env)
            return None if t is None else not t
        if isinstance(test, ast.BoolOp):
            vs = [self.static_test(v, env) for v in test.values]
            if None in vs:
                return None
            return all(vs) if isinstance(test.op, ast.And) else any(vs)
        return None

    def exec_stmt(self, st, env):
        self.steps += 1
        if isinstance(st, ast.Expr):
            if isinstance(st.value, ast.Constant):
                return _NORET
            self.ev(st.value, env)
            return _NORET
        if isinstance(st, ast.Assign):
            if len(st.targets) != 1:
                raise ModelError('chained assignment')
            v = self.ev(st.value, env)
            # numpy: `x = a[..., 0, :]` aliases (View); any operator result is a fresh array
            self.store(st.targets[0], v, env, st)
            return _NORET
        if isinstance(st, ast.AugAssign):
            v = self.ev(st.value, env)
            self.store(st.target, v, env, st, aug=st.op)
            return _NORET
        if isinstance(st, ast.For):
            it = self.ev(st.iter, env)
            if not isinstance(it, tuple) or not isinstance(st.target, ast.Name) or st.orelse:
                raise ModelError(f'for loop {ast.unparse(st.iter)[:60]} is not over the operand tuple')
            for x in it:
                env[st.target.id] = x
                r = self.exec_block(st.body, env)
                if r is not _NORET:
                    return r
            return _NORET
        if isinstance(st, ast.If):
            # a test on statically known integers (e.g. `len(ins) == 1`: the arity is fixed per table) selects one arm
            t = self.static_test(st.test, env)
            if t is None:
                raise ModelError(f'statement If at line {st.lineno}: {ast.unparse(st.test)[:80]}')
            return self.exec_block(st.body if t else st.orelse, env)
        if isinstance(st, ast.Return):
            return self.ev(st.value, env) if st.value is not None else None
        if isinstance(st, ast.Pass):
            return _NORET
        raise ModelError(f'statement {type(st).__name__} at line {st.lineno}: {ast.unparse(st)[:80]}')

    def run(self, fdef, args):
        self.trace.append(fdef.name)
        a = fdef.args
        if a.kwonlyargs or a.kwarg or a.posonlyargs:
            raise ModelError(f'{fdef.name}: unsupported signature')
        env = {}
        npos = len(a.args)
        if len(args) < npos - len(a.defaults):
            raise LaneViolation(f'{fdef.name} called with {len(args)} args, needs {npos}', fdef)
        for i, p in enumerate(a.args):
            if i < len(args):
                env[p.arg] = args[i]
            else:
                d = a.defaults[i - (npos - len(a.defaults))]
                env[p.arg] = self.ev(d, {}) if not (isinstance(d, ast.Constant) and d.value is None) else None
        if a.vararg:
            env[a.vararg.arg] = tuple(args[npos:])
        elif len(args) > npos:
            raise LaneViolation(f'{fdef.name} called with {len(args)} args, takes {npos}', fdef)
        r = self.exec_block(body_no_doc(fdef), env)
        return None if r is _NORET else r


_NORET = object()


def planes_to_values(planes, nrows):
    """Per-row integer value from a list of bitsets (plane b = bit b)."""
    out = [0] * nrows
    for b, pl in enumerate(planes):
        row = 0
        while pl:
            low = pl & -pl
            row = low.bit_length() - 1
            out[row] |= 1 << b
            pl ^= low
    return out
