"""Path-wise symbolic effect analysis of sim.Heap.alloc / Heap.free (engine B, linear domain).

For every acyclic path the analysis tracks, as linear expressions over opaque atoms (loc, size, released[i],
size[<key>], current_size), the reads/writes/deletes of `self.chunks`, the updates of `self.current_size`,
`self.max_size` and `self.released`, and the equalities established by the branch conditions taken.
Rules decided on every path (implication of linear equalities by Gaussian elimination):

  tiling     the chunk intervals after the path cover exactly the region the touched chunks covered before
             (plus/minus the tail by which current_size grew/shrank): splits and merges are position-exact,
             merges happen only between provably adjacent chunks
  returned   the key returned by alloc has exactly the requested size and is no longer listed in `released`
  released   every chunk key deleted on the path is not left in `released`; a freed chunk that survives is listed;
             every key put into `released` still is a chunk
  maxsize    max_size is raised after every growth of current_size

These are necessary conditions of the allocator clause of C08, decided for all histories because they hold on every
path from every state satisfying the invariant; they are not the full clause (first-fit policy, ordering of `released`,
completeness of coalescing are not decided).
"""
from __future__ import annotations

import ast
from fractions import Fraction

from .core import ModelError
from .paths import cz, enum_paths
from .astutil import body_no_doc


class Lin:
    def __init__(self, d=None):
        self.d = {k: Fraction(v) for k, v in (d or {}).items() if v != 0}

    def __add__(self, o):
        r = dict(self.d)
        for k, v in o.d.items():
            r[k] = r.get(k, 0) + v
        return Lin(r)

    def __sub__(self, o):
        r = dict(self.d)
        for k, v in o.d.items():
            r[k] = r.get(k, 0) - v
        return Lin(r)

    def is_zero(self):
        return not self.d

    def __repr__(self):
        if not self.d:
            return '0'
        out = []
        for k, v in sorted(self.d.items()):
            c = '' if v == 1 else ('-' if v == -1 else f'{v}*')
            out.append(f'{c}{k}' if k != '1' else str(v))
        return ' + '.join(out)


def sym(s):
    return Lin({s: 1})


def const(n):
    return Lin({'1': n}) if n else Lin()


class Eqs:
    """Linear equalities known on the current path; implication by elimination."""
    def __init__(self):
        self.rows = []      # (pivot atom, Lin normalised with pivot coefficient 1)

    def reduce(self, e: Lin):
        e = Lin(e.d)
        for piv, row in self.rows:
            c = e.d.get(piv)
            if c:
                for k, v in row.d.items():
                    e.d[k] = e.d.get(k, 0) - c * v
                e = Lin(e.d)
        return e

    def add(self, e: Lin):
        e = self.reduce(e)
        if e.is_zero():
            return
        atoms = [k for k in e.d if k != '1']
        if not atoms:
            raise ModelError('heap analysis: contradictory path condition')
        piv = sorted(atoms)[0]
        c = e.d[piv]
        row = Lin({k: v / c for k, v in e.d.items()})
        self.rows.append((piv, row))

    def zero(self, e: Lin):
        return self.reduce(e).is_zero()


class PathState:
    def __init__(self, q):
        self.q = q
        self.eqs = Eqs()
        self.env = {}
        self.size = {}         # key repr -> (key Lin, current size Lin) for live touched chunks
        self.old = []          # (key Lin, size Lin) as at entry, for every pre-existing chunk touched
        self.created = set()
        self.deleted = []      # key Lins
        self.cs_delta = Lin()
        self.grew_since_max = False
        self.max_missing = False
        self.rel_alias = {}    # key repr -> released entry text it is known to be
        self.rel_removed = set()    # entry texts removed or overwritten
        self.rel_inserted = []      # (key Lin, entry text or None)
        self.ret = None
        self.trace = []
        self.problems = []
        self.key_atoms = set()     # atoms that are chunk keys by precondition (the chunk being freed)
        self.rel_atoms = set()     # released[...] atoms seen (entries of `released` are chunk keys by invariant)
        self.positive = []         # Lins known to be > 0 from strict path inequalities
        self.nonneg = []           # Lins known to be >= 0 (non-strict inequalities)
        self.nonzero = []          # Lins known to be != 0 (failed equality tests)

    # ---- keys
    def find_key(self, k: Lin):
        for r, (kl, _) in self.size.items():
            if self.eqs.zero(kl - k):
                return r
        return None

    def touch(self, k: Lin):
        r = self.find_key(k)
        if r is not None:
            return r
        for d in self.deleted:
            if self.eqs.zero(d - k):
                raise ModelError(f'{self.q}: chunk {k} used after it was deleted')
        if not self.known_key(k):
            self.problems.append(('keys', f'chunks[{self.eqs.reduce(k)}] is accessed although that address is not known to be a chunk key on this path '
                                          f'(not the freed chunk, not an entry of `released`, not proven equal to one): KeyError or a foreign chunk'))
        r = repr(k)
        s = sym(f'size[{r}]')
        self.size[r] = (k, s)
        self.old.append((k, s))
        return r

    def known_key(self, k):
        red = self.eqs.reduce(k)
        cands = [sym(a) for a in self.key_atoms]
        for row_piv, row in self.eqs.rows:
            pass
        for c in cands:
            if self.eqs.zero(k - c):
                return True
        # any released[...] atom mentioned in the equalities or the environment
        for a in list(self.rel_atoms):
            if self.eqs.zero(k - sym(a)):
                return True
        return False


def analyse(fdef, qual):
    """Yield one result dict per path."""
    body = body_no_doc(fdef)
    for path, done in enum_paths(list(body)):
        yield run_path(path, qual, [a.arg for a in fdef.args.args])


def run_path(path, q, params):
    st = PathState(q)
    if q.endswith('free') and len(params) > 1:
        st.key_atoms.add(params[1])

    def ev(e):
        if isinstance(e, ast.Constant) and isinstance(e.value, int) and not isinstance(e.value, bool):
            return const(e.value)
        if isinstance(e, ast.Name):
            return st.env[e.id] if e.id in st.env else sym(e.id)
        if isinstance(e, ast.Attribute) and cz(e) == 'self.current_size':
            return sym('current_size') + st.cs_delta
        if isinstance(e, ast.Subscript) and cz(e.value) == 'self.chunks':
            r = st.touch(ev(e.slice))
            return st.size[r][1]
        if isinstance(e, ast.Subscript) and cz(e.value) == 'self.released':
            a = f'released[{entry_text(e.slice)}]'
            st.rel_atoms.add(a)
            return sym(a)
        if isinstance(e, ast.BinOp) and isinstance(e.op, (ast.Add, ast.Sub)):
            a, b = ev(e.left), ev(e.right)
            return a + b if isinstance(e.op, ast.Add) else a - b
        if isinstance(e, ast.UnaryOp) and isinstance(e.op, ast.USub):
            return Lin() - ev(e.operand)
        if isinstance(e, ast.Call) and cz(e.func) == 'self.chunks.pop' and len(e.args) == 1 and not e.keywords:
            k = ev(e.args[0])       # value = size of the chunk, the entry is deleted
            r = st.touch(k)
            v = st.size[r][1]
            st.deleted.append(st.size[r][0])
            del st.size[r]
            st.trace.append(f'pop chunks[{k}]')
            return v
        if isinstance(e, ast.Call) and cz(e.func) == 'self.released.pop' and len(e.args) <= 1 and not e.keywords:
            sl = e.args[0] if e.args else ast.UnaryOp(op=ast.USub(), operand=ast.Constant(value=1))
            a = f'released[{entry_text(sl)}]'
            st.rel_atoms.add(a)
            et = entry_text(sl)
            st.rel_removed.add(et)
            st.rel_inserted = [(k, ee) for k, ee in st.rel_inserted if ee != et]
            st.trace.append(f'pop released[{et}]')
            return sym(a)
        raise ModelError(f'{q}: expression outside the linear subset: {cz(e)[:60]}')

    def entry_text(sl):
        try:
            return repr(ev(sl))
        except ModelError:
            return cz(sl)

    def cond(test, pol):
        if isinstance(test, ast.BoolOp):
            if isinstance(test.op, ast.And) and pol:
                for v in test.values:
                    cond(v, True)
            elif isinstance(test.op, ast.Or) and not pol:
                for v in test.values:
                    cond(v, False)
            return
        if isinstance(test, ast.Compare) and len(test.ops) == 1:
            op = test.ops[0]
            if isinstance(op, (ast.Gt, ast.Lt, ast.GtE, ast.LtE)):
                try:
                    a, b = ev(test.left), ev(test.comparators[0])
                except ModelError:
                    return
                if (isinstance(op, ast.Gt) and pol) or (isinstance(op, ast.LtE) and not pol):
                    st.positive.append(a - b)
                elif (isinstance(op, ast.Lt) and pol) or (isinstance(op, ast.GtE) and not pol):
                    st.positive.append(b - a)
                elif (isinstance(op, ast.GtE) and pol) or (isinstance(op, ast.Lt) and not pol):
                    st.nonneg.append(a - b)
                elif (isinstance(op, ast.LtE) and pol) or (isinstance(op, ast.Gt) and not pol):
                    st.nonneg.append(b - a)
                return
            if (isinstance(op, ast.Eq) and not pol) or (isinstance(op, ast.NotEq) and pol):
                try:
                    a, b = ev(test.left), ev(test.comparators[0])
                except ModelError:
                    return
                st.nonzero.append(a - b)
                return
            if (isinstance(op, ast.Eq) and pol) or (isinstance(op, ast.NotEq) and not pol):
                try:
                    a, b = ev(test.left), ev(test.comparators[0])
                except ModelError:
                    return
                st.eqs.add(a - b)
                # key identity with a released entry
                for x, y in ((test.left, test.comparators[0]), (test.comparators[0], test.left)):
                    if isinstance(y, ast.Subscript) and cz(y.value) == 'self.released':
                        st.rel_alias[repr(ev(x))] = entry_text(y.slice)

    for item in path:
        kind = item[0]
        if kind == 'cond':
            st.trace.append(('if ' if item[2] else 'if not ') + cz(item[1])[:70])
            t = cz(item[1])
            if t in ('self.current_size>self.max_size', 'self.max_size<self.current_size', 'self.current_size>=self.max_size', 'self.max_size<=self.current_size'):
                if item[2]:
                    st.cs_exceeds_max = True
                else:
                    st.grew_since_max = False    # the recorded maximum already covers the current size on this path
                continue
            cond(item[1], item[2])
            continue
        if kind == 'skiploop':
            st.trace.append('skip for ' + cz(item[1].target))
            continue
        if kind == 'loop':
            lp = item[1]
            st.trace.append('for ' + cz(lp.target))
            if cz(lp.iter) == 'enumerate(self.released)' and isinstance(lp.target, ast.Tuple) and len(lp.target.elts) == 2:
                i, v = lp.target.elts[0].id, lp.target.elts[1].id
                st.env[v] = sym(f'released[{i}]')
                st.rel_atoms.add(f'released[{i}]')
                st.rel_alias[repr(st.env[v])] = i
            else:
                raise ModelError(f'{q}: loop over {cz(lp.iter)} outside the modelled subset')
            continue
        if kind in ('continue', 'break'):
            st.trace.append(kind)
            continue
        if kind == 'ret':
            r = item[1]
            st.ret = ev(r.value) if r.value is not None else None
            st.trace.append('return' + (f' {st.ret}' if st.ret is not None else ''))
            continue
        s = item[1]
        if isinstance(s, ast.Pass) or (isinstance(s, ast.Expr) and isinstance(s.value, ast.Constant)):
            continue
        if isinstance(s, ast.Assign) and len(s.targets) == 1:
            tg = s.targets[0]
            if isinstance(tg, ast.Name):
                if cz(s.value).startswith('bisect('):
                    st.env[tg.id] = sym(tg.id)
                    continue
                v = ev(s.value)
                st.env[tg.id] = v
                if isinstance(s.value, ast.Subscript) and cz(s.value.value) == 'self.released':
                    st.rel_alias[repr(v)] = entry_text(s.value.slice)
                continue
            if isinstance(tg, ast.Subscript) and cz(tg.value) == 'self.chunks':
                k = ev(tg.slice)
                v = ev(s.value)
                r = st.find_key(k)
                if r is None:
                    # first touch is a write: a key that was never read on this path is a new chunk
                    r = repr(k)
                    st.created.add(r)
                    st.size[r] = (k, v)
                else:
                    st.size[r] = (st.size[r][0], v)
                if not is_positive(st, v):
                    st.problems.append(('tiling', f'chunks[{st.eqs.reduce(k)}] = {st.eqs.reduce(v)}: the new size is not provably positive on this path (a zero or negative chunk overlaps its neighbour)'))
                st.trace.append(f'chunks[{k}] = {v}')
                continue
            if isinstance(tg, ast.Attribute) and cz(tg) == 'self.current_size':
                v = ev(s.value)
                old_delta = st.cs_delta
                st.cs_delta = v - sym('current_size')
                if not is_positive(st, old_delta - st.cs_delta) and not (old_delta - st.cs_delta).is_zero():
                    st.grew_since_max = True   # not provably a shrink
                st.trace.append(cz(s))
                continue
            if isinstance(tg, ast.Attribute) and cz(tg) == 'self.max_size':
                if cz(s.value) in ('max(self.max_size,self.current_size)', 'max(self.current_size,self.max_size)'):
                    st.grew_since_max = False
                elif cz(s.value) == 'self.current_size' and getattr(st, 'cs_exceeds_max', False):
                    st.grew_since_max = False      # `if current_size > max_size: max_size = current_size`
                else:
                    raise ModelError(f'{q}: max_size assigned {cz(s.value)}')
                continue
            if isinstance(tg, ast.Subscript) and cz(tg.value) == 'self.released':
                e = entry_text(tg.slice)
                st.rel_removed.add(e)
                st.rel_inserted.append((ev(s.value), e))
                st.trace.append(f'released[{e}] = {ev(s.value)}')
                continue
        if isinstance(s, ast.AugAssign) and cz(s.target) == 'self.current_size' and isinstance(s.op, (ast.Add, ast.Sub)):
            v = ev(s.value)
            if isinstance(s.op, ast.Add):
                st.cs_delta = st.cs_delta + v
                st.grew_since_max = True
            else:
                st.cs_delta = st.cs_delta - v
            st.trace.append(cz(s))
            continue
        if isinstance(s, ast.Delete):
            for tg in s.targets:
                if isinstance(tg, ast.Subscript) and cz(tg.value) == 'self.chunks':
                    k = ev(tg.slice)
                    r = st.touch(k)
                    st.deleted.append(st.size[r][0])
                    del st.size[r]
                    st.trace.append(f'del chunks[{k}]')
                elif isinstance(tg, ast.Subscript) and cz(tg.value) == 'self.released':
                    e = entry_text(tg.slice)
                    st.rel_removed.add(e)
                    # an entry inserted earlier at this position is gone again
                    st.rel_inserted = [(k, ee) for k, ee in st.rel_inserted if ee != e]
                    st.trace.append(f'del released[{e}]')
                else:
                    raise ModelError(f'{q}: unexpected delete {cz(s)}')
            continue
        if isinstance(s, ast.Expr) and isinstance(s.value, ast.Call) and cz(s.value.func) in ('self.chunks.pop', 'self.released.pop'):
            ev(s.value)
            continue
        if isinstance(s, ast.Expr) and isinstance(s.value, ast.Call) and cz(s.value.func) == 'insort_left' and cz(s.value.args[0]) == 'self.released':
            k = ev(s.value.args[1])
            # loc is not in released before; bisect(released, loc) == bisect_left -> it lands at index released_idx
            pos = None
            for nm, v in st.env.items():
                if nm == 'released_idx':
                    pos = repr(v)
            st.rel_inserted.append((k, pos))
            st.trace.append(f'insort released <- {k}')
            continue
        raise ModelError(f'{q}: statement outside the modelled subset: {cz(s)[:80]}')
    if st.grew_since_max:
        st.max_missing = True
    return finish(st, params)


def is_positive(st, v):
    """sizes are positive: `size`, every size[...] atom; sums of positives; A - B when A > B is a path condition."""
    r = st.eqs.reduce(v)
    def allpos(x):
        return bool(x.d) and all(c > 0 and (a == 'size' or a.startswith('size[')) for a, c in x.d.items())
    if allpos(r):
        return True
    pos = list(st.positive)
    for p in st.nonneg:  # x >= 0 and x != 0 (either sign of the recorded difference)  =>  x > 0
        for z in st.nonzero:
            if st.eqs.reduce(p - z).is_zero() or st.eqs.reduce(p + z).is_zero():
                pos.append(p)
    for p in pos:
        d = st.eqs.reduce(v - p)
        if d.is_zero() or allpos(d):
            return True
    return False


def finish(st: PathState, params):
    E = st.eqs
    res = {'trace': st.trace, 'problems': list(st.problems)}
    # ---- tiling
    old = list(st.old)
    new = [(k, s) for r, (k, s) in st.size.items()]
    cs0 = sym('current_size')
    d = st.cs_delta
    grow = E.reduce(d)
    # growth / shrink of the managed range as pseudo intervals
    neg = all(v < 0 for v in grow.d.values()) and not grow.is_zero()
    pos = all(v > 0 for v in grow.d.values()) and not grow.is_zero()
    if pos:
        old.append((cs0, d))
    elif neg:
        new.append((cs0 + d, Lin() - d))
    elif not grow.is_zero():
        res['problems'].append(('tiling', f'current_size changes by {grow}, sign not determined'))
    # coverage functions of the old and the new chunk sets must coincide: every boundary point carries the same
    # net number of interval starts minus ends (points are grouped by implied equality)
    groups = []     # [representative Lin, net]
    def bump(p, d):
        for g in groups:
            if E.zero(g[0] - p):
                g[1] += d
                return
        groups.append([p, d])
    for k, s in old:
        bump(k, +1)
        bump(k + s, -1)
    for k, s in new:
        bump(k, -1)
        bump(k + s, +1)
    bad = [(E.reduce(p), n) for p, n in groups if n != 0]
    if bad:
        res['problems'].append(('tiling', 'chunks after this path do not cover exactly the region covered before: unmatched boundaries '
                                          + ', '.join(f'{p} ({"lost" if n > 0 else "extra"} start/{"extra" if n > 0 else "lost"} end)' for p, n in bad[:4])
                                          + ' - split/merge position wrong, or merge without a proven adjacency'))
    # ---- returned chunk
    if st.q.endswith('alloc') and st.ret is not None:
        r = st.find_key(st.ret)
        if r is None:
            res['problems'].append(('returned', f'alloc returns {st.ret}, which is not a chunk on this path'))
        else:
            if not E.zero(st.size[r][1] - sym(params[1])):
                res['problems'].append(('returned', f'alloc returns chunk {st.ret} of size {E.reduce(st.size[r][1])}, requested {params[1]}: the caller may overrun into the next chunk'))
            ent = next((e for kk, e in st.rel_alias.items() if kk == repr(st.ret) or E.zero(str_lin(kk, st) - st.ret)), None)
            if ent is not None and ent not in st.rel_removed:
                res['problems'].append(('returned', f'alloc returns {st.ret} but leaves it listed in released[{ent}] (it would be handed out twice)'))
    # ---- released consistency
    for k in st.deleted:
        ent = next((e for kk, e in st.rel_alias.items() if E.zero(str_lin(kk, st) - k)), None)
        if ent is not None and ent not in st.rel_removed:
            res['problems'].append(('released', f'chunk {E.reduce(k)} is deleted but stays listed in released[{ent}] (dangling entry: KeyError / double allocation later)'))
        for kk, e in st.rel_inserted:
            if E.zero(kk - k):
                res['problems'].append(('released', f'chunk {E.reduce(k)} is put into `released` and then deleted from chunks without removing the entry'))
    for kk, e in st.rel_inserted:
        if st.find_key(kk) is None and not any(E.zero(kk - k) for k in st.deleted):
            res['problems'].append(('released', f'`released` receives {E.reduce(kk)}, which is not a chunk key on this path'))
    if st.q.endswith('free'):
        loc = sym(params[1])
        survives = st.find_key(loc) is not None
        if survives and not any(E.zero(kk - loc) for kk, e in st.rel_inserted):
            res['problems'].append(('released', f'freed chunk {params[1]} survives the call but is not put into `released` (its memory is never reused or coalesced)'))
    if st.max_missing:
        res['problems'].append(('maxsize', 'current_size grows on this path without max_size = max(max_size, current_size) afterwards'))
    res['grows'] = pos
    return res


def str_lin(keyrepr, st):
    """Recover the Lin of a key from its repr (keys are stored by repr in rel_alias)."""
    for r, (k, _) in st.size.items():
        if r == keyrepr:
            return k
    for k, _ in st.old:
        if repr(k) == keyrepr:
            return k
    for k in st.deleted:
        if repr(k) == keyrepr:
            return k
    # fall back: a single atom
    return sym(keyrepr)
