"""Structural facts about sim.SimOps.__init__ shared by C01, C07, C08, C13 (engine T)."""
from __future__ import annotations

import ast

from .core import AnchorError, ModelError, Repo, norm
from .astutil import find_all, attr_chain, is_name, target_names, call_name, walk_no_nested_funcs, enclosing, parents


class OpSite:
    """One `ops.append((lut, out, in0, in1, in2, in3, *a_ctrl[...]))` site."""
    def __init__(self, call, tup):
        self.call = call
        self.tup = tup
        self.elts = tup.elts
        self.lut = self.elts[0]
        self.out = self.elts[1]
        self.ins = self.elts[2:6]
        self.rest = self.elts[6:]
        self.role = None
        self.opaque = False


def simops_init(repo: Repo):
    mod = repo.mod('sim')
    return mod, mod.func('SimOps.__init__')


def op_sites(fn, tolerant=False):
    """The `ops.append((...))` sites. With tolerant=True a site whose columns cannot be told apart statically (operands passed as `*list`, tuples
    built elsewhere, `ops.extend(...)`) is returned as an *opaque* site (only .lut, if it is the first element of a display; .ins/.rest None):
    the rules that need columns then rely on the evaluated translation (C01.wiring) or stop with a ModelError."""
    sites = []
    for c in find_all(fn, ast.Call, nested=False):
        if call_name(c) in ('ops.append', 'ops.extend') and len(c.args) == 1:
            t = c.args[0]
            if call_name(c) == 'ops.extend' and isinstance(t, (ast.GeneratorExp, ast.ListComp)):
                t = t.elt
                opaque = True
            else:
                opaque = call_name(c) == 'ops.extend'
            if not isinstance(t, ast.Tuple):
                if tolerant:
                    sites.append(OpaqueSite(c, None))
                    continue
                raise ModelError(f'ops.append argument is not a tuple display: {norm(t)[:80]}')
            if opaque or len(t.elts) < 6 or any(isinstance(e, ast.Starred) for e in t.elts[:6]):
                if tolerant:
                    sites.append(OpaqueSite(c, t))
                    continue
                raise ModelError(f'ops.append tuple has {len(t.elts)} < 6 elements')
            sites.append(OpSite(c, t))
    return sites


class OpaqueSite:
    opaque = True

    def __init__(self, call, tup):
        self.call, self.tup = call, tup
        self.lut = tup.elts[0] if tup is not None and tup.elts and not isinstance(tup.elts[0], ast.Starred) else None
        self.out = self.ins = self.rest = None
        self.elts = tup.elts if tup is not None else []
        self.role = None


def operand_defs(fn):
    """Assignments  NAME = X.ins[K].index if len(X.ins) > K and X.ins[K] is not None else self.zero_idx
    -> {NAME: (K, node, ok_guard)}  and the output  NAME = X.outs[0].index if ... else self.tmp_idx."""
    ins, outs = {}, {}
    for st in find_all(fn, ast.Assign, nested=False):
        if len(st.targets) != 1 or not isinstance(st.targets[0], ast.Name):
            continue
        v = st.value
        if not isinstance(v, ast.IfExp):
            continue
        b = v.body
        # body: <node>.ins[K].index
        if isinstance(b, ast.Attribute) and b.attr == 'index' and isinstance(b.value, ast.Subscript) \
                and isinstance(b.value.value, ast.Attribute) and b.value.value.attr in ('ins', 'outs') \
                and isinstance(b.value.slice, ast.Constant):
            side = b.value.value.attr
            K = b.value.slice.value
            base = norm(b.value.value.value)
            tests = norm(v.test)
            guard_len = f'len({base}.{side}) > {K}' in tests
            guard_none = f'{base}.{side}[{K}] is not None' in tests
            only_and = not any(isinstance(n, ast.BoolOp) and isinstance(n.op, ast.Or) for n in ast.walk(v.test)) \
                and not any(isinstance(n, ast.UnaryOp) and isinstance(n.op, ast.Not) for n in ast.walk(v.test))
            default = attr_chain(v.orelse)
            rec = dict(K=K, node=st, guard_ok=guard_len and guard_none and only_and, default=default, base=base)
            if side == 'ins':
                if st.targets[0].id in ins and enclosing(st, ast.For) is not enclosing(ins[st.targets[0].id]['node'], ast.For):
                    continue  # the same name re-used in a later pass (levelisation) - not a definition of the op tuple
                ins.setdefault(st.targets[0].id, rec)
            else:
                outs.setdefault(st.targets[0].id, rec)
    return ins, outs


def special_slots(fn):
    """self.zero_idx / tmp_idx / tmp2_idx / ppi_offset / ppo_offset / c_locs_len definitions as text."""
    out = {}
    for st in find_all(fn, ast.Assign, nested=False):
        if len(st.targets) == 1:
            ch = attr_chain(st.targets[0])
            if ch and ch.startswith('self.') and ch.count('.') == 1:
                out.setdefault(ch[5:], []).append(st)
    return out


# --------------------------------------------------------------------------- passes of SimOps.__init__ (C07/C08)

def stem_subst(value):
    """value is `stems[E] if stems[E] >= 0 else E`  ->  text of E, else None."""
    if isinstance(value, ast.IfExp):
        t, b, o = value.test, value.body, value.orelse
        if isinstance(b, ast.Subscript) and is_name(b.value, 'stems') and norm(b.slice) == norm(o) \
                and isinstance(t, ast.Compare) and len(t.ops) == 1 and isinstance(t.ops[0], ast.GtE) \
                and norm(t.left) == norm(b) and isinstance(t.comparators[0], ast.Constant) and t.comparators[0].value == 0:
            return norm(o)
    return None


class Passes:
    def __init__(self, fn):
        self.fn = fn
        fors = find_all(fn, ast.For, nested=False)
        self.level_loop = next((l for l in fors if norm(l.iter).replace(' ', '') == 'enumerate(self.ops)'), None)
        # the per-level allocation pass: an outer loop whose body holds a loop over a slice of self.ops (whatever the
        # spelling of the level bounds: which ops each iteration covers is *evaluated* by level_partition())
        self.alloc_level_loop = self.alloc_op_loop = None
        for l in fors:
            if l is self.level_loop:
                continue
            inner = [x for x in l.body if isinstance(x, ast.For) and isinstance(x.iter, ast.Subscript)
                     and norm(x.iter.value).replace(' ', '') == 'self.ops' and isinstance(x.iter.slice, ast.Slice)]
            if len(inner) == 1 and ('level_st' in norm(l.iter) or any('level_st' in norm(n) for n in ast.walk(inner[0].iter))):
                self.alloc_level_loop, self.alloc_op_loop = l, inner[0]
                break
        if self.level_loop is None or self.alloc_level_loop is None:
            raise AnchorError('SimOps.__init__: levelisation / allocation loops not found')
        self.snode_loops = [l for l in fors if norm(l.iter).replace(' ', '') == 'enumerate(circuit.s_nodes)']

    def level_partition(self):
        """[(ops covered per outer iteration, expected)] for representative level tables, by evaluating the loop headers
        (and the plain-name bookkeeping assignments around them) in Engine M."""
        from . import minieval
        blk = getattr(self.alloc_level_loop, '_parent', self.fn)
        sibs = blk.body if self.alloc_level_loop in getattr(blk, 'body', []) else getattr(blk, 'orelse', [])
        out = []
        for starts, stops in (([0, 3, 4, 8], [3, 4, 8, 9]), ([0, 1], [1, 2]), ([0], [5])):
            n = stops[-1]
            env = {'self': minieval.NS(level_starts=starts, level_stops=stops, ops=list(range(n))), 'len': len}
            for st in sibs[:sibs.index(self.alloc_level_loop)]:
                if isinstance(st, ast.Assign) and len(st.targets) == 1 and isinstance(st.targets[0], ast.Name):
                    try:
                        minieval.run([st], env)
                    except Exception:  # noqa: BLE001 - unrelated statement
                        pass
            got = []
            try:
                for item in minieval.ev(self.alloc_level_loop.iter, env):
                    minieval.bind(self.alloc_level_loop.target, item, env)
                    for st in self.alloc_level_loop.body:
                        if st is self.alloc_op_loop:
                            got.append(list(minieval.ev(st.iter, env)))
                        elif isinstance(st, (ast.Assign, ast.AugAssign)) and all(isinstance(t, ast.Name) for t in (st.targets if isinstance(st, ast.Assign) else [st.target])):
                            try:
                                minieval.run([st], env)
                            except Exception:  # noqa: BLE001
                                pass
            except (IndexError, KeyError, TypeError) as e:
                got = f'{type(e).__name__}: {e}'
            out.append((starts, stops, got, [list(range(a, b)) for a, b in zip(starts, stops)]))
        return out

    @staticmethod
    def operand_names(loop):
        """{name: op column} for `name = stems[op[K]] if stems[op[K]] >= 0 else op[K]` directly in loop body,
        plus list of (name, column, stmt) for plain `name = op[K]` (no stem substitution)."""
        opvar = target_names(loop.target)[-1]
        sub, plain = {}, []
        for st in loop.body:
            if isinstance(st, ast.Assign) and len(st.targets) == 1 and isinstance(st.targets[0], ast.Name):
                e = stem_subst(st.value)
                if e is not None:
                    m = ast.parse(e, mode='eval').body
                    if isinstance(m, ast.Subscript) and is_name(m.value, opvar) and isinstance(m.slice, ast.Constant):
                        sub[st.targets[0].id] = (m.slice.value, st)
                elif isinstance(st.value, ast.Subscript) and is_name(st.value.value, opvar) and isinstance(st.value.slice, ast.Constant):
                    plain.append((st.targets[0].id, st.value.slice.value, st))
        return sub, plain


# --------------------------------------------------------------------------- evaluated node -> op translation (Engine M)

def translation_loop(init):
    """The `for n in circuit.topological_order():` loop of SimOps.__init__ that appends to ops."""
    for l in find_all(init, ast.For, nested=False):
        if 'topological_order' in norm(l.iter) and isinstance(l.target, ast.Name) and any(call_name(c) == 'ops.append' for c in find_all(l, ast.Call)):
            return l
    raise AnchorError('SimOps.__init__: the node -> op translation loop was not found')


def evaluate_translation(init, prefix_rows, cases):
    """ops emitted for each stand-in node of `cases` (dicts with keys kind, ins, outs, s_pos or None, strip_forks), by running the
    loop body in Engine M. Returns [(case, ops or 'ExcName: msg')]. Raises ModelError if the body is outside the evaluator subset."""
    from . import minieval
    loop = translation_loop(init)
    nvar = loop.target.id
    luts = sorted({nm for _p, names, _n in prefix_rows for nm in names} | {'BUF1', 'INV1'})
    kp = {}
    for p, names, _node in prefix_rows:
        kp[p] = tuple(names)

    class ACtrl(dict):
        def __missing__(self, k):
            i = getattr(k, 'index', k)
            return (('a', i, 0), ('a', i, 1), ('a', i, 2))       # the three accumulation columns of line i
    out = []
    for case in cases:
        def mk(seq, base):
            return [None if not c else minieval.NS(index=base + k) for k, c in enumerate(seq)]
        node = minieval.NS(kind=case['kind'], ins=mk(case['ins'], 100), outs=mk(case['outs'], 200), name='n', index=7)
        genv = {'kind_prefixes': dict(kp)}
        for nm in luts:
            genv[nm] = nm
        me = minieval.NS(ppi_offset=1000, ppo_offset=2000, zero_idx=900, tmp_idx=901, tmp2_idx=902)
        cls = getattr(init, '_parent', None)
        if isinstance(cls, ast.ClassDef):
            minieval.bind_class(me, cls, genv)           # helper methods of SimOps the loop may call
            mod = getattr(cls, '_parent', None)
            if isinstance(mod, ast.Module):
                minieval.module_functions(mod, genv)     # and module-level helpers
        env = dict(genv)
        env.update({nvar: node, 'ops': [], 'a_ctrl': ACtrl(), 'strip_forks': case['strip_forks'], 'self': me,
                    'interface_dict': ({node: case['s_pos']} if case['s_pos'] is not None else {})})
        try:
            minieval.run(loop.body, env)
            out.append((case, [tuple(o) for o in env['ops']]))
        except minieval.Returned:
            out.append((case, [tuple(o) for o in env['ops']]))
        except (IndexError, KeyError, TypeError, AttributeError, ValueError) as e:
            out.append((case, f'{type(e).__name__}: {e}'))
    return out


def expected_translation(case, prefix_rows):
    """What the op list must contain for the stand-in node (documented semantics of SimOps)."""
    Z, T = 900, 901
    ins = [100 + k if c else None for k, c in enumerate(case['ins'])]
    outs = [200 + k if c else None for k, c in enumerate(case['outs'])]
    if case['s_pos'] is not None:
        src = 1000 + case['s_pos']
        ops = []
        for k, o in enumerate(outs):
            if o is None:
                continue
            lut = 'INV1' if (k == 1 and 'dff' in case['kind'].lower()) else 'BUF1'
            if k >= 2 and 'dff' in case['kind'].lower():
                continue      # a flip-flop has the outputs Q and QN only
            ops.append((lut, o, src, Z, Z, Z, ('a', o, 0), ('a', o, 1), ('a', o, 2)))
        return ops
    i = [(ins[k] if k < len(ins) and ins[k] is not None else Z) for k in range(4)]
    kind = case['kind'].lower()
    if kind == '__fork__':
        if case['strip_forks']:
            return []
        return [('BUF1', o, i[0], i[1], i[2], i[3], ('a', o, 0), ('a', o, 1), ('a', o, 2)) for o in outs if o is not None]
    o0 = outs[0] if outs and outs[0] is not None else T
    for p, names, _n in prefix_rows:
        if kind.startswith(p):
            slot = 0 if i[3] != Z else (1 if i[2] != Z else 2)
            return [(names[slot], o0, i[0], i[1], i[2], i[3], ('a', o0, 0), ('a', o0, 1), ('a', o0, 2))]
    return []
