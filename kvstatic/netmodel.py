"""Stand-ins for kyupy's graph classes (Circuit, Node, Line) for Engine M: the documented constructor semantics only
(what C09 decides about the real constructors): a node registers in `forks` or `cells` under its unique name and gets the next index;
a line occupies the given pins, or the first free pin of a pin list when only the node is given; io_nodes is a list that grows on item store."""
from __future__ import annotations

from .minieval import NS, NodeNS


class GList(list):
    def __setitem__(self, k, v):
        if isinstance(k, int) and k >= len(self):
            self.extend([None] * (k + 1 - len(self)))
        super().__setitem__(k, v)

    def free_index(self):
        for i, x in enumerate(self):
            if x is None:
                return i
        return len(self)


def _free(lst):
    for i, x in enumerate(lst):
        if x is None:
            return i
    return len(lst)


class CircuitNS(NS):
    _kv_class = True

    def __init__(self, name=None):
        super().__init__(name=name, nodes=[], lines=[], forks={}, cells={}, io_nodes=GList())


class NodeStandIn(NodeNS):
    _kv_class = True

    def __init__(self, circuit, name, kind='__fork__'):
        if kind == '__fork__':
            if name in circuit.forks:
                raise AssertionError(f'fork of name {name} already in circuit.')
            circuit.forks[name] = self
        else:
            if name in circuit.cells:
                raise AssertionError(f'cell of name {name} already in circuit.')
            circuit.cells[name] = self
        circuit.nodes.append(self)
        super().__init__(circuit=circuit, name=name, kind=kind, index=len(circuit.nodes) - 1, ins=GList(), outs=GList(), tag=f'{kind}:{name}')


class LineStandIn(NodeNS):
    _kv_class = True

    def __init__(self, circuit, driver, reader):
        if not isinstance(driver, tuple):
            driver = (driver, _free(driver.outs))
        if not isinstance(reader, tuple):
            reader = (reader, _free(reader.ins))
        d, dp = driver
        r, rp = reader
        if not isinstance(d, NodeStandIn) or not isinstance(r, NodeStandIn):
            raise TypeError('Line endpoints must be nodes')
        if not isinstance(dp, int) or not isinstance(rp, int):
            raise TypeError('pin positions must be integers')
        circuit.lines.append(self)
        super().__init__(circuit=circuit, index=len(circuit.lines) - 1, driver=d, driver_pin=dp, reader=r, reader_pin=rp, tag=f'{d.name}.{dp}->{r.name}.{rp}')
        d.outs[dp] = self
        r.ins[rp] = self


def env():
    return {'Circuit': CircuitNS, 'Node': NodeStandIn, 'Line': LineStandIn}


def source_of(line, limit=50):
    """(kind of source, name, pin) reached by walking from a line back through forks"""
    n, pin = line.driver, line.driver_pin
    hops = []
    while n.kind == '__fork__' and limit > 0:
        limit -= 1
        hops.append(n.name)
        if len(n.ins) == 0 or n.ins[0] is None:
            return ('undriven', n.name, 0), hops
        l = n.ins[0]
        n, pin = l.driver, l.driver_pin
    return (n.kind, n.name, pin), hops
