"""Structural model of wave_sim._wave_eval shared by C03, C04, C13 (anchors by role)."""
from __future__ import annotations

import ast

from .core import Repo, ModelError, AnchorError, norm
from .astutil import find_all, attr_chain, is_name, call_name, body_no_doc, target_names, flatten_if_chain, renamed
from .paths import cz, enum_paths, guards_of, guard_texts


class Kernel:
    def __init__(self, repo: Repo):
        self.mod = repo.mod('wave_sim')
        self.f = f = self.mod.func('_wave_eval')
        self.body = body_no_doc(f)
        self.params = [a.arg for a in f.args.args]
        if self.params[:7] != ['op', 'cbuf', 'c_locs', 'c_caps', 'sim', 'delays', 'simctl_int']:
            raise ModelError(f'_wave_eval: unexpected parameters {self.params}')
        loops = [s for s in self.body if isinstance(s, ast.While)]
        if len(loops) != 1:
            raise ModelError('_wave_eval: expected exactly one while loop')
        self.loop = loops[0]
        k = self.body.index(self.loop)
        self.prologue, self.epilogue = self.body[:k], self.body[k + 1:]
        lb = self.loop.body
        if len(lb) != 3 or not isinstance(lb[0], ast.If) or not isinstance(lb[1], ast.If) or not isinstance(lb[2], ast.Assign):
            raise ModelError('_wave_eval: loop body is not [operand-arm chain, toggle block, current_t update]')
        self.arm_if, self.toggle_if, self.next_stmt = lb
        arms, orelse = flatten_if_chain(self.arm_if)
        self.arms = [(t, b) for t, b in arms] + [(None, orelse)]
        # operand letters from the prologue  x_idx = op[k]
        self.col = {}
        for st in self.prologue:
            if isinstance(st, ast.Assign) and isinstance(st.targets[0], ast.Name) and isinstance(st.value, ast.Subscript) \
                    and is_name(st.value.value, 'op') and isinstance(st.value.slice, ast.Constant):
                self.col[st.targets[0].id] = st.value.slice.value
        self.operands = sorted((c, n[:-4]) for n, c in self.col.items() if n.endswith('_idx') and c >= 2)
        self.letters = [l for _, l in self.operands]
        if len(self.letters) != 4:
            raise ModelError(f'_wave_eval: expected four operands, found {self.letters}')
        self.zname = next((n[:-4] for n, c in self.col.items() if c == 1 and n.endswith('_idx')), None)
        if self.zname != 'z':
            raise ModelError('_wave_eval: output index variable is not z_idx = op[1]')

    def arm_letter(self, body):
        for st in body:
            if isinstance(st, ast.AugAssign) and isinstance(st.target, ast.Name) and st.target.id.endswith('_cur') and st.target.id[:-4] in self.letters:
                return st.target.id[:-4]
        return None
