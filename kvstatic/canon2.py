"""Engine N, second set of rewrites (learnt from the held-out batch of refactorings, DESIGN.md 8.8). Same contract as canon.py:
every rewrite preserves semantics under the stated side condition; the normal form is only used to remove textual differences.

  scope-comp   comprehension variables live in their own scope: each comprehension gets fresh names for its targets, so that a
               comprehension variable never looks like a re-binding of an outer local with the same name
  exits        `if c: BODY` whose BODY always leaves (return/raise/continue/break) followed by REST -> `if c: BODY else: REST`
  orient       if/else and conditional expressions whose test is a negative form (`is not`, `!=`, `not in`, `not x`) are turned
               around (test negated, arms swapped)
  truth        `len(x) > 0`, `len(x) != 0`, `0 < len(x)` -> x ; `len(x) == 0` -> not x   (in boolean contexts; containers)
               `a if a else b` -> `a or b` (a without effects)
  walrus       `if (x := E): B` -> `x = E; if x: B`
  re-compile   `re.compile(P).m(args)` -> `re.m(P, args)`
  getattr      `getattr(o, 'name')` -> o.name ; `setattr(o, 'name', v)` -> o.name = v   (constant identifier)
  modconst     a module-level name bound once to a tuple/list of constants and never re-bound: its value
  adjacent     `t = E` (any E, even with effects) whose only read is in the next simple statement, all other parts of which are
               effect-free -> that statement with E in place of t
  attr-prop    `self.a = E` (E pure): following reads of self.a in the same block become E until self.a or something E reads is
               written or a call that mentions self is made
  sink         if/elif/else chain in which every arm that can fall through ends with `v = E_i`, followed by the only statement that
               reads v -> that statement is moved into the arms with E_i in place of v
  default-else `x = D` (D pure) directly followed by `if c: ...` without else whose body assigns x on every path before reading it,
               c not reading x -> the default moves into the else arm
  for-listcomp `for T in [E for V in IT if C]: B` -> `for V in IT: if C: T = E; B` when B cannot change what E, IT, C read
  comp-merge   `[f(v) for v in [w for w in X if c(w)]]` -> `[f(w) for w in X if c(w)]`
"""
from __future__ import annotations

import ast
import copy

from . import canon as C


# --------------------------------------------------------------------------------------------- comprehension scopes

def scope_comprehensions(fn):
    counter = [0]

    def rename_in(node, mapping):
        for n in ast.walk(node):
            if isinstance(n, ast.Name) and n.id in mapping:
                n.id = mapping[n.id]

    def visit(node):
        for child in ast.iter_child_nodes(node):
            visit(child)
        if isinstance(node, (ast.ListComp, ast.SetComp, ast.GeneratorExp, ast.DictComp)):
            names = set()
            for g in node.generators:
                for n in ast.walk(g.target):
                    if isinstance(n, ast.Name):
                        names.add(n.id)
            if not names:
                return
            mapping = {}
            for nm in sorted(names):
                counter[0] += 1
                mapping[nm] = f'{nm}__c{counter[0]}'
            parts = [node.key, node.value] if isinstance(node, ast.DictComp) else [node.elt]
            for k, g in enumerate(node.generators):
                parts.append(g.target)
                parts.extend(g.ifs)
                if k > 0:
                    parts.append(g.iter)     # the first iterable is evaluated in the enclosing scope
            for p in parts:
                rename_in(p, mapping)
    visit(fn)


# --------------------------------------------------------------------------------------------- control shape

def _always_exits(block):
    if not block:
        return False
    last = block[-1]
    if isinstance(last, (ast.Return, ast.Raise, ast.Continue, ast.Break)):
        return True
    if isinstance(last, ast.If) and last.orelse:
        return _always_exits(last.body) and _always_exits(last.orelse)
    return False


def exits_to_else(fn):
    changed = True
    while changed:
        changed = False
        for _o, _f, body in list(C._blocks(fn)):
            for i, st in enumerate(body):
                if isinstance(st, ast.If) and not st.orelse and i + 1 < len(body) and _always_exits(st.body):
                    st.orelse = body[i + 1:]
                    del body[i + 1:]
                    changed = True
                    break
            if changed:
                break


NEG_OPS = (ast.IsNot, ast.NotEq, ast.NotIn)


def _neg_atoms(t):
    if isinstance(t, ast.BoolOp):
        return sum(_neg_atoms(v) for v in t.values)
    return 1 if _is_negative(t) else 0


def _is_negative(t):
    if isinstance(t, ast.UnaryOp) and isinstance(t.op, ast.Not):
        return True
    if isinstance(t, ast.BoolOp):
        # De Morgan pairs (`not a or b == 0` / `a and b != 0`): the form with fewer negative atoms, the disjunction on a tie
        n1, n2 = _neg_atoms(t), _neg_atoms(C._neg(t))
        return n1 > n2 or (n1 == n2 and isinstance(t.op, ast.And))
    if isinstance(t, ast.Compare) and len(t.ops) == 1 and isinstance(t.ops[0], (ast.GtE, ast.LtE)):
        return all(C._is_int_expr(x) for x in (t.left, t.comparators[0]))     # `a >= b` is `not a < b` only without NaN
    return isinstance(t, ast.Compare) and len(t.ops) == 1 and isinstance(t.ops[0], NEG_OPS)


def orient(fn):
    for n in ast.walk(fn):
        if isinstance(n, ast.If) and n.orelse and _is_negative(n.test):
            n.test = C._neg(n.test)
            n.body, n.orelse = n.orelse, n.body
        elif isinstance(n, ast.IfExp) and _is_negative(n.test):
            n.test = C._neg(n.test)
            n.body, n.orelse = n.orelse, n.body
    # `if c: pass else: X` cannot be printed as elif-chains consistently: keep `if not c: X`
    for n in ast.walk(fn):
        if isinstance(n, ast.If) and n.orelse and len(n.body) == 1 and isinstance(n.body[0], ast.Pass):
            n.test = C._neg(n.test)
            n.body, n.orelse = n.orelse, []


class _Truth(ast.NodeTransformer):
    """len()-comparisons in boolean contexts, `a if a else b`, re.compile, getattr/setattr."""
    def _len_of(self, e):
        if isinstance(e, ast.Call) and isinstance(e.func, ast.Name) and e.func.id == 'len' and len(e.args) == 1 and not e.keywords:
            return e.args[0]
        return None

    def truth(self, t):
        """t in a boolean context"""
        if isinstance(t, ast.BoolOp):
            t.values = [self.truth(v) for v in t.values]
            return t
        if isinstance(t, ast.UnaryOp) and isinstance(t.op, ast.Not):
            t.operand = self.truth(t.operand)
            return t
        if isinstance(t, ast.Compare) and len(t.ops) == 1:
            l, r, op = t.left, t.comparators[0], t.ops[0]
            zero = lambda e: isinstance(e, ast.Constant) and type(e.value) is int and e.value == 0  # noqa: E731
            x = None
            if zero(r) and self._len_of(l) is not None:
                x, opx = self._len_of(l), op
            elif zero(l) and self._len_of(r) is not None:
                x = self._len_of(r)
                opx = {ast.Lt: ast.Gt, ast.Gt: ast.Lt, ast.LtE: ast.GtE, ast.GtE: ast.LtE}.get(type(op), type(op))()
            if x is not None:
                if isinstance(opx, (ast.Gt, ast.NotEq)):
                    return x
                if isinstance(opx, (ast.Eq, ast.LtE)):
                    return ast.UnaryOp(op=ast.Not(), operand=x)
        return t

    def visit_If(self, node):
        self.generic_visit(node)
        node.test = self.truth(node.test)
        return node

    def visit_While(self, node):
        self.generic_visit(node)
        node.test = self.truth(node.test)
        return node

    def visit_IfExp(self, node):
        self.generic_visit(node)
        node.test = self.truth(node.test)
        if ast.dump(node.test) == ast.dump(node.body) and C._pure(node.test):
            return ast.BoolOp(op=ast.Or(), values=[node.body, node.orelse])      # a if a else b
        return node

    def visit_comprehension(self, node):
        self.generic_visit(node)
        node.ifs = [self.truth(c) for c in node.ifs]
        return node

    def visit_Call(self, node):
        self.generic_visit(node)
        f = node.func
        # re.compile(P).m(args) -> re.m(P, args)
        if isinstance(f, ast.Attribute) and f.attr in ('sub', 'split', 'match', 'search', 'fullmatch', 'findall') and isinstance(f.value, ast.Call) \
                and isinstance(f.value.func, ast.Attribute) and isinstance(f.value.func.value, ast.Name) and f.value.func.value.id == 're' \
                and f.value.func.attr == 'compile' and len(f.value.args) == 1 and not f.value.keywords and not node.keywords:
            return ast.Call(func=ast.Attribute(value=ast.Name(id='re', ctx=ast.Load()), attr=f.attr, ctx=ast.Load()), args=[f.value.args[0]] + list(node.args), keywords=[])
        # min(a, b) is `b if b < a else a`, max(a, b) is `b if b > a else a` (the builtin keeps the first of equal / unordered arguments; exact for NaN too)
        if isinstance(f, ast.Name) and f.id in ('min', 'max') and len(node.args) == 2 and not node.keywords and not any(isinstance(a, ast.Starred) for a in node.args) \
                and all(C._pure(a) for a in node.args):
            a, b = node.args
            import copy
            return ast.IfExp(test=ast.Compare(left=copy.deepcopy(b), ops=[ast.Lt() if f.id == 'min' else ast.Gt()], comparators=[copy.deepcopy(a)]), body=b, orelse=a)
        if isinstance(f, ast.Name) and f.id == 'getattr' and len(node.args) == 2 and not node.keywords and isinstance(node.args[1], ast.Constant) \
                and isinstance(node.args[1].value, str) and node.args[1].value.isidentifier():
            return ast.Attribute(value=node.args[0], attr=node.args[1].value, ctx=ast.Load())
        return node


def truth_and_idioms(fn):
    _Truth().visit(fn)
    for _o, _f, body in list(C._blocks(fn)):
        for i, st in enumerate(body):
            # setattr(o, 'name', v) -> o.name = v
            if isinstance(st, ast.Expr) and isinstance(st.value, ast.Call) and isinstance(st.value.func, ast.Name) and st.value.func.id == 'setattr' \
                    and len(st.value.args) == 3 and not st.value.keywords and isinstance(st.value.args[1], ast.Constant) \
                    and isinstance(st.value.args[1].value, str) and st.value.args[1].value.isidentifier():
                a = st.value.args
                body[i] = ast.Assign(targets=[ast.Attribute(value=a[0], attr=a[1].value, ctx=ast.Store())], value=a[2], lineno=getattr(st, 'lineno', 0))
    # walrus as the whole if-test
    changed = True
    while changed:
        changed = False
        for _o, _f, body in list(C._blocks(fn)):
            for i, st in enumerate(body):
                if isinstance(st, ast.If) and isinstance(st.test, ast.NamedExpr) and isinstance(st.test.target, ast.Name):
                    nm = st.test.target.id
                    body.insert(i, ast.Assign(targets=[ast.Name(id=nm, ctx=ast.Store())], value=st.test.value, lineno=getattr(st, 'lineno', 0)))
                    st.test = ast.Name(id=nm, ctx=ast.Load())
                    changed = True
                    break
            if changed:
                break


def param_single_branch(fn):
    """`if c: p = E` (no else) for a parameter p (always bound) -> `p = E if c else p`"""
    for scope in C._scopes(fn):
        params = {a.arg for a in scope.args.args + scope.args.kwonlyargs + scope.args.posonlyargs}
        for _o, _f, body in list(C._own_blocks(scope)):
            for i, st in enumerate(body):
                if isinstance(st, ast.If) and not st.orelse and len(st.body) == 1 and isinstance(st.body[0], ast.Assign) \
                        and len(st.body[0].targets) == 1 and isinstance(st.body[0].targets[0], ast.Name) and st.body[0].targets[0].id in params:
                    p = st.body[0].targets[0].id
                    body[i] = ast.Assign(targets=[ast.Name(id=p, ctx=ast.Store())],
                                         value=ast.IfExp(test=st.test, body=st.body[0].value, orelse=ast.Name(id=p, ctx=ast.Load())), lineno=getattr(st, 'lineno', 0))


# --------------------------------------------------------------------------------------------- module constants

def module_constants(fn, module_tree):
    if module_tree is None:
        return
    binds = {}
    for st in module_tree.body:
        for n in ast.walk(st):
            if isinstance(n, ast.Name) and isinstance(n.ctx, (ast.Store, ast.Del)):
                binds[n.id] = binds.get(n.id, 0) + 1
            elif isinstance(n, (ast.Global,)):
                for x in n.names:
                    binds[x] = binds.get(x, 0) + 2
    consts = {}
    for st in module_tree.body:
        if isinstance(st, ast.Assign) and len(st.targets) == 1 and isinstance(st.targets[0], ast.Name) and binds.get(st.targets[0].id) == 1 \
                and isinstance(st.value, (ast.Tuple, ast.List)) and 0 < len(st.value.elts) <= C.MAX_TRIPS \
                and all(isinstance(e, ast.Constant) for e in st.value.elts):
            consts[st.targets[0].id] = ast.Tuple(elts=list(st.value.elts), ctx=ast.Load())
    if not consts:
        return
    local = set(C._bindings(fn))

    class T(ast.NodeTransformer):
        def visit_Name(self, node):
            if isinstance(node.ctx, ast.Load) and node.id in consts and node.id not in local:
                return copy.deepcopy(consts[node.id])
            return node
    T().visit(fn)


# --------------------------------------------------------------------------------------------- adjacent single use

def _contains(node, target):
    return any(n is target for n in ast.walk(node))


def adjacent_single_use(fn):
    for scope in C._scopes(fn):
        special = set(C._closure_names(scope))
        for a in scope.args.args + scope.args.kwonlyargs + scope.args.posonlyargs + [x for x in (scope.args.vararg, scope.args.kwarg) if x]:
            special.add(a.arg)
        changed = True
        while changed:
            changed = False
            cnt = {}
            loads = {}
            for n in C._own_walk(scope):
                if isinstance(n, ast.Name):
                    if isinstance(n.ctx, ast.Load):
                        loads.setdefault(n.id, []).append(n)
                    else:
                        cnt[n.id] = cnt.get(n.id, 0) + 1
                elif isinstance(n, ast.AugAssign) and isinstance(n.target, ast.Name):
                    cnt[n.target.id] = cnt.get(n.target.id, 0) + 1
            for _o, _f, body in list(C._own_blocks(scope)):
                for i, st in enumerate(body[:-1]):
                    if not (isinstance(st, ast.Assign) and len(st.targets) == 1 and isinstance(st.targets[0], ast.Name)):
                        continue
                    t = st.targets[0].id
                    if t in special or cnt.get(t) != 1 or len(loads.get(t, [])) != 1:
                        continue
                    if any(isinstance(n, (ast.Yield, ast.YieldFrom, ast.Await, ast.NamedExpr, ast.Lambda)) for n in ast.walk(st.value)):
                        continue
                    use = loads[t][0]
                    nxt = body[i + 1]
                    # where in the next statement may the use sit? anywhere in a simple statement, or in the header of a compound one
                    if isinstance(nxt, (ast.Assign, ast.Expr, ast.Return, ast.AugAssign)):
                        region = nxt
                    elif isinstance(nxt, (ast.If, ast.While)):
                        region = nxt.test if not isinstance(nxt, ast.While) else None
                    elif isinstance(nxt, ast.For):
                        region = nxt.iter
                    else:
                        region = None
                    if region is None or not _contains(region, use):
                        continue
                    # every other part of the region must be effect-free (then the evaluation order is immaterial) ...
                    others_ok = True
                    for n in ast.walk(region):
                        if isinstance(n, ast.Call) and not C._noeffect(n) and not _contains(n, use):
                            others_ok = False
                        if isinstance(n, ast.Call) and not C._noeffect(n) and _contains(n, use) and n is not region and not C._movable(st.value):
                            # the use is an argument of a call with effects: fine (arguments are evaluated before the call) unless
                            # sibling arguments have effects, which the first test already excludes
                            pass
                    if not others_ok and not C._movable(st.value):
                        continue
                    # ... and a store target evaluated in the same statement must not be affected (targets are evaluated after the value)
                    if isinstance(nxt, ast.AugAssign) and not C._pure(st.value, True):
                        continue
                    new = C._Subst({t: st.value}).visit(nxt)
                    body[i:i + 2] = [new]
                    changed = True
                    break
                if changed:
                    break


# --------------------------------------------------------------------------------------------- attribute forward substitution

def attr_forward(fn):
    """`X.a = E` (X a plain name, E pure): following reads of X.a in the same block become E until anything named `.a` is stored to
    (another name may alias X), something E reads is written, X is re-bound, or a call with effects mentions X."""
    for _o, _f, body in list(C._blocks(fn)):
        for i, st in enumerate(body):
            if not (isinstance(st, ast.Assign) and len(st.targets) == 1 and isinstance(st.targets[0], ast.Attribute)
                    and isinstance(st.targets[0].value, ast.Name) and C._pure(st.value)):
                continue
            base = st.targets[0].value.id
            attr = st.targets[0].attr
            if any(isinstance(n, ast.Attribute) and n.attr == attr for n in ast.walk(st.value)) or any(isinstance(n, ast.Name) and n.id == base for n in ast.walk(st.value)) and base != 'self':
                continue

            class T(ast.NodeTransformer):
                def visit_Attribute(self, node):
                    self.generic_visit(node)
                    if isinstance(node.ctx, ast.Load) and isinstance(node.value, ast.Name) and node.value.id == base and node.attr == attr:
                        return copy.deepcopy(st.value)
                    return node
            for k in range(i + 1, len(body)):
                s = body[k]
                if not isinstance(s, (ast.Assign, ast.Expr, ast.AugAssign, ast.Return)):
                    break
                impure_base = any(isinstance(n, ast.Call) and not C._noeffect(n) and any(isinstance(m, ast.Name) and m.id == base for m in ast.walk(n)) for n in ast.walk(s))
                if impure_base:
                    break
                # reads (also inside the store target's index expressions) are evaluated before the statement's own store
                if isinstance(s, ast.Return):
                    if s.value is not None:
                        s.value = T().visit(s.value)
                else:
                    s.value = T().visit(s.value)
                    tgs = s.targets if isinstance(s, ast.Assign) else ([s.target] if isinstance(s, ast.AugAssign) else [])
                    for tg in tgs:
                        if isinstance(tg, ast.Subscript):
                            tg.value = T().visit(tg.value)
                            tg.slice = T().visit(tg.slice)
                        elif isinstance(tg, ast.Attribute) and not (isinstance(tg.value, ast.Name) and tg.value.id == base and tg.attr == attr):
                            tg.value = T().visit(tg.value)
                stores_attr = any(isinstance(n, ast.Attribute) and n.attr == attr and isinstance(n.ctx, (ast.Store, ast.Del)) for n in ast.walk(s))
                rebinds = any(isinstance(n, ast.Name) and n.id == base and isinstance(n.ctx, (ast.Store, ast.Del)) for n in ast.walk(s))
                if stores_attr or rebinds or C._interferes(st.value, [s]):
                    break


# --------------------------------------------------------------------------------------------- sinking a common use into the arms

def _leaf_blocks(ifnode):
    out = []
    for blk in (ifnode.body, ifnode.orelse):
        if len(blk) == 1 and isinstance(blk[0], ast.If) and blk is ifnode.orelse:
            out.extend(_leaf_blocks(blk[0]))
        else:
            out.append(blk)
    return out


def sink_into_arms(fn):
    for scope in C._scopes(fn):
        changed = True
        while changed:
            changed = False
            for _o, _f, body in list(C._own_blocks(scope)):
                for i, st in enumerate(body[:-1]):
                    nxt = body[i + 1]
                    if not (isinstance(st, ast.If) and st.orelse and isinstance(nxt, (ast.Assign, ast.Expr, ast.Return, ast.AugAssign))):
                        continue
                    leaves = _leaf_blocks(st)
                    if len(leaves) < 2:
                        continue
                    falling = [b for b in leaves if not _always_exits(b)]
                    if not falling:
                        continue
                    # all falling arms end with `v = E` for one v
                    v = None
                    ok = True
                    for b in falling:
                        last = b[-1] if b else None
                        if not (isinstance(last, ast.Assign) and len(last.targets) == 1 and isinstance(last.targets[0], ast.Name)):
                            ok = False
                            break
                        if v is None:
                            v = last.targets[0].id
                        elif v != last.targets[0].id:
                            ok = False
                            break
                    if not ok or v is None:
                        continue
                    uses_next = [n for n in ast.walk(nxt) if isinstance(n, ast.Name) and n.id == v and isinstance(n.ctx, ast.Load)]
                    all_uses = [n for n in C._own_walk(scope) if isinstance(n, ast.Name) and n.id == v and isinstance(n.ctx, ast.Load)]
                    if len(uses_next) != 1 or len(all_uses) != 1:
                        continue
                    if v in C._closure_names(scope) or any(isinstance(n, ast.Name) and n.id == v and isinstance(n.ctx, ast.Store) for n in ast.walk(nxt)):
                        continue
                    # other parts of nxt must be effect-free and not written by the arms' last statement (it is the last one: nothing in between)
                    if any(isinstance(n, ast.Call) and not C._noeffect(n) and not _contains(n, uses_next[0]) for n in ast.walk(nxt)):
                        continue
                    for b in falling:
                        last = b[-1]
                        b[-1] = C._Subst({v: last.value}).visit(copy.deepcopy(nxt))
                    del body[i + 1]
                    changed = True
                    break
                if changed:
                    break


# --------------------------------------------------------------------------------------------- default before if -> else arm

def _assigns_before_read(block, x):
    """True if every path through block assigns name x before reading it (and the block never exits early)."""
    for st in block:
        reads = any(isinstance(n, ast.Name) and n.id == x and isinstance(n.ctx, ast.Load) for n in ast.walk(st))
        if isinstance(st, ast.Assign) and len(st.targets) == 1 and isinstance(st.targets[0], ast.Name) and st.targets[0].id == x:
            return not any(isinstance(n, ast.Name) and n.id == x for n in ast.walk(st.value))
        if isinstance(st, ast.If):
            if any(isinstance(n, ast.Name) and n.id == x for n in ast.walk(st.test)):
                return False
            if st.orelse and _assigns_before_read(st.body, x) and _assigns_before_read(st.orelse, x):
                return True
            if reads or any(isinstance(n, ast.Name) and n.id == x for b in (st.body, st.orelse) for s in b for n in ast.walk(s)):
                return False
            continue
        if reads or isinstance(st, (ast.Return, ast.Raise, ast.Continue, ast.Break, ast.For, ast.While, ast.Try, ast.With)):
            return False
    return False


def default_to_else(fn):
    changed = True
    while changed:
        changed = False
        for _o, _f, body in list(C._blocks(fn)):
            for i, st in enumerate(body[:-1]):
                nxt = body[i + 1]
                if isinstance(st, ast.Assign) and len(st.targets) == 1 and isinstance(st.targets[0], ast.Name) and C._pure(st.value) \
                        and isinstance(nxt, ast.If) and not nxt.orelse:
                    x = st.targets[0].id
                    if any(isinstance(n, ast.Name) and n.id == x for n in ast.walk(nxt.test)):
                        continue
                    if C._interferes(st.value, [ast.Expr(value=nxt.test)]):
                        continue
                    if _assigns_before_read(nxt.body, x):
                        nxt.orelse = [st]
                        del body[i]
                        changed = True
                        break
            if changed:
                break


# --------------------------------------------------------------------------------------------- comprehension shapes

def for_over_listcomp(fn):
    changed = True
    while changed:
        changed = False
        for _o, _f, body in list(C._blocks(fn)):
            for i, st in enumerate(body):
                if isinstance(st, ast.For) and isinstance(st.iter, ast.ListComp) and len(st.iter.generators) == 1 and not st.orelse:
                    g = st.iter.generators[0]
                    if g.is_async or not C._movable(st.iter):
                        continue
                    # the list is built before the first iteration: the body must not change what elt / iterable / conditions read
                    probe = ast.Tuple(elts=[st.iter.elt, g.iter] + list(g.ifs), ctx=ast.Load())
                    if C._interferes(probe, st.body):
                        continue
                    tn = {n.id for n in ast.walk(g.target) if isinstance(n, ast.Name)}
                    if any(isinstance(n, ast.Name) and n.id in tn for s in st.body for n in ast.walk(s)):
                        continue
                    inner = [ast.Assign(targets=[copy.deepcopy(st.target)], value=st.iter.elt, lineno=getattr(st, 'lineno', 0))] + list(st.body)
                    for c in reversed(g.ifs):
                        inner = [ast.If(test=c, body=inner, orelse=[])]
                    tgt = g.target
                    for n in ast.walk(tgt):
                        if hasattr(n, 'ctx'):
                            n.ctx = ast.Store()
                    st.target, st.iter, st.body = tgt, g.iter, inner
                    changed = True
                    break
            if changed:
                break

    class M(ast.NodeTransformer):
        def generic_comp(self, node):
            self.generic_visit(node)
            for g in node.generators:
                it = g.iter
                if isinstance(it, (ast.ListComp, ast.GeneratorExp)) and len(it.generators) == 1 and isinstance(it.elt, ast.Name) \
                        and isinstance(it.generators[0].target, ast.Name) and it.elt.id == it.generators[0].target.id and isinstance(g.target, ast.Name) \
                        and not it.generators[0].is_async:
                    inner = it.generators[0]
                    ren = {inner.target.id: ast.Name(id=g.target.id, ctx=ast.Load())}
                    g.iter = inner.iter
                    g.ifs = [C._subst(c, ren) for c in inner.ifs] + list(g.ifs)
            return node
        visit_ListComp = visit_SetComp = visit_GeneratorExp = visit_DictComp = generic_comp
    M().visit(fn)


# --------------------------------------------------------------------------------------------- conditional re-binding

def cond_rebind(fn):
    """`if c: x = E` (no else) with x bound before in the same block (or a parameter)  ->  `x = E if c else x`.
    E is evaluated exactly when c holds in both forms; x is bound, so reading it in the else arm cannot fail."""
    params = {a.arg for a in fn.args.args + fn.args.kwonlyargs} | ({fn.args.vararg.arg} if fn.args.vararg else set())
    # names bound unconditionally at the top level of the function, with the position of that statement
    top = {}
    for k, st in enumerate(fn.body):
        if isinstance(st, ast.Assign):
            for t in st.targets:
                for x in ([t] if not isinstance(t, (ast.Tuple, ast.List)) else t.elts):
                    if isinstance(x, ast.Name):
                        top.setdefault(x.id, k)

    def top_index(node):
        for k, st in enumerate(fn.body):
            if any(n is node for n in ast.walk(st)):
                return k
        return -1
    for _o, _f, body in list(C._blocks(fn)):
        bound = set(params)
        if body is not fn.body and body:
            ti = top_index(body[0])
            bound |= {n for n, k in top.items() if k < ti}      # bound before the top-level statement this block sits in
        for k, st in enumerate(body):
            if isinstance(st, ast.If) and not st.orelse and len(st.body) == 1 and isinstance(st.body[0], ast.Assign) and len(st.body[0].targets) == 1 \
                    and isinstance(st.body[0].targets[0], ast.Name) and st.body[0].targets[0].id in bound:
                x = st.body[0].targets[0].id
                new = ast.Assign(targets=[ast.Name(id=x, ctx=ast.Store())],
                                 value=ast.IfExp(test=st.test, body=st.body[0].value, orelse=ast.Name(id=x, ctx=ast.Load())))
                ast.copy_location(new, st)
                ast.fix_missing_locations(new)
                body[k] = new
                st = new
            if isinstance(st, ast.Assign):
                for t in st.targets:
                    if isinstance(t, ast.Name):
                        bound.add(t.id)


# --------------------------------------------------------------------------------------------- driver hook

def extra_passes(fn, module_tree):
    module_constants(fn, module_tree)
    truth_and_idioms(fn)
    exits_to_else(fn)
    default_to_else(fn)
    attr_forward(fn)
    adjacent_single_use(fn)
    sink_into_arms(fn)
    for_over_listcomp(fn)
    cond_rebind(fn)
    orient(fn)
