"""Engine M - a tiny concrete evaluator for side-effect-free expressions over a *finite* set of abstract inputs.

Used where a rule's subject is a small decision (which variant is selected, which index is computed) that depends on a
handful of boolean facts: the rule enumerates all combinations of the facts, binds the names the code uses to values
that realise the combination, evaluates the code's own expressions here, and compares the decision with the rule's
specification - instead of recognising one spelling of the decision. Anything outside the subset raises ModelError
(exit 2: the construct is not modelled), never a verdict."""
from __future__ import annotations

import ast
import types

from .core import ModelError

class NS(types.SimpleNamespace):
    """Stand-in object: attributes as given by the rule; identity semantics (hashable, equal only to itself) like kyupy's Node/Line."""
    __hash__ = object.__hash__

    def __eq__(self, other):
        return self is other

    def __ne__(self, other):
        return self is not other



class NodeNS(NS):
    """Stand-in for objects that kyupy uses directly as indices (Node, Line define __index__)."""
    def __index__(self):
        return self.index


class IntArr:
    """Stand-in for a one-dimensional integer ndarray as far as traversal code uses it: item read / store by integer-like index,
    selection by an index list, `+ k` / `- k`, `.max()` / `.min()` (ValueError on an empty selection, like numpy). The element
    width is not modelled (a rule about the width must look at the dtype itself)."""
    def __init__(self, vals):
        self.v = list(vals)

    def __len__(self):
        return len(self.v)

    def __iter__(self):
        return iter(list(self.v))

    def __getitem__(self, k):
        if isinstance(k, (list, tuple)):
            return IntArr([self.v[int(i.__index__())] for i in k])
        if isinstance(k, slice):
            return IntArr(self.v[k])
        return self.v[k.__index__()]

    def __setitem__(self, k, val):
        if isinstance(k, slice):
            n = len(self.v[k])
            self.v[k] = [val] * n
        else:
            self.v[k.__index__()] = val

    def _map(self, f):
        return IntArr([f(x) for x in self.v])

    def __add__(self, o): return self._map(lambda x: x + o)
    def __sub__(self, o): return self._map(lambda x: x - o)
    def __mul__(self, o): return self._map(lambda x: x * o)

    def max(self):
        if not self.v:
            raise ValueError('zero-size array to reduction operation maximum which has no identity')
        return max(self.v)

    def min(self):
        if not self.v:
            raise ValueError('zero-size array to reduction operation minimum which has no identity')
        return min(self.v)


FUEL = 20000      # bound on while-loop iterations: beyond it the evaluated code is taken not to terminate (a result, not a model error)


def freeze(x):
    """hashable, comparable form of an index / value: lists and tuples -> tuples, stand-in objects -> their name or index, slices -> ':'"""
    if isinstance(x, (list, tuple)):
        return tuple(freeze(v) for v in x)
    if isinstance(x, slice):
        return ':' if x == slice(None) else ('slice', freeze(x.start), freeze(x.stop), freeze(x.step))
    if isinstance(x, types.SimpleNamespace):
        return getattr(x, 'tag', None) or f'obj{getattr(x, "index", "?")}'
    return x


class Rec(dict):
    """Array stand-in: item reads give 0, item stores are recorded (it is a dict keyed by the frozen index); attributes are set by the rule."""
    def __missing__(self, k):
        return 0

    def put(self, k, v):
        dict.__setitem__(self, freeze(k), freeze(v))

_CALLS = {'len': len, 'min': min, 'max': max, 'sum': sum, 'int': int, 'float': float, 'abs': abs, 'any': any, 'all': all, 'bool': bool,
          'range': range, 'enumerate': enumerate, 'zip': zip, 'list': list, 'tuple': tuple, 'sorted': sorted, 'reversed': reversed,
          'next': lambda it, *d: next(iter(it), *d), 'set': set, 'str': str, 'print': lambda *a, **k: None}


def _pow(x, y):
    if isinstance(y, (int, float)) and abs(y) <= 1024:
        return x ** y
    raise ModelError('minieval: power with a large exponent')


def stub(fn):
    fn._kv_stub = True
    return fn


def _args(args, env):
    out = []
    for a in args:
        if isinstance(a, ast.Starred):
            out.extend(list(ev(a.value, env)))
        else:
            out.append(ev(a, env))
    return out


def ev(e, env):
    if isinstance(e, ast.Constant):
        return e.value
    if isinstance(e, ast.Name):
        if e.id in env:
            return env[e.id]
        raise ModelError(f'minieval: unbound name {e.id}')
    if isinstance(e, ast.Attribute):
        b = ev(e.value, env)
        if isinstance(b, (NS, Rec)) and hasattr(b, e.attr):
            return getattr(b, e.attr)
        if isinstance(b, tuple) and hasattr(type(b), '_fields') and e.attr in type(b)._fields:
            return getattr(b, e.attr)       # a namedtuple of the rule
        if (getattr(b, '_kv_token', False) or (isinstance(b, str) and type(b).__name__ == 'Token')) and e.attr in ('value', 'type'):
            return getattr(b, e.attr)       # a lexer token (lark's Token is a str with .value / .type) or its stand-in
        if getattr(type(b), '_kv_array', False) and e.attr in type(b)._kv_attrs:
            return getattr(b, e.attr)       # shape / ndim of an array stand-in
        if b is None or isinstance(b, (NS, int, float, str, tuple, list)):
            raise AttributeError(f'{type(b).__name__!r} object has no attribute {e.attr!r}')    # what the code itself would raise
        raise ModelError(f'minieval: attribute {ast.unparse(e)}')
    if isinstance(e, ast.Subscript):
        b = ev(e.value, env)
        if isinstance(b, Rec):
            return b[freeze(ev(e.slice, env))]
        if b is None:
            raise TypeError("'NoneType' object is not subscriptable")
        if type(b).__name__ == 'Match':
            return b[ev(e.slice, env)]
        if isinstance(b, IntArr) or getattr(type(b), '_kv_array', False):
            return b[ev(e.slice, env)]
        if not isinstance(b, (list, tuple, dict, str)):
            raise ModelError(f'minieval: subscript on {type(b).__name__}: {ast.unparse(e)}')
        if isinstance(e.slice, ast.Slice):
            lo = None if e.slice.lower is None else ev(e.slice.lower, env)
            hi = None if e.slice.upper is None else ev(e.slice.upper, env)
            st = None if e.slice.step is None else ev(e.slice.step, env)
            return b[lo:hi:st]
        return b[ev(e.slice, env)]   # IndexError / KeyError propagate: the code would raise as well
    if isinstance(e, ast.UnaryOp):
        v = ev(e.operand, env)
        return {ast.Not: lambda x: not x, ast.USub: lambda x: -x, ast.UAdd: lambda x: +x, ast.Invert: lambda x: ~x}[type(e.op)](v)
    if isinstance(e, ast.BoolOp):
        r = None
        for v in e.values:
            r = ev(v, env)
            if isinstance(e.op, ast.And) and not r:
                return r
            if isinstance(e.op, ast.Or) and r:
                return r
        return r
    if isinstance(e, ast.BinOp):
        a, b = ev(e.left, env), ev(e.right, env)
        ops = {ast.Add: lambda x, y: x + y, ast.Sub: lambda x, y: x - y, ast.Mult: lambda x, y: x * y, ast.FloorDiv: lambda x, y: x // y,
               ast.Mod: lambda x, y: x % y, ast.BitAnd: lambda x, y: x & y, ast.BitOr: lambda x, y: x | y, ast.BitXor: lambda x, y: x ^ y,
               ast.LShift: lambda x, y: x << y, ast.RShift: lambda x, y: x >> y, ast.Pow: _pow, ast.Div: lambda x, y: x / y}
        if type(e.op) not in ops:
            raise ModelError(f'minieval: operator {type(e.op).__name__}')
        return ops[type(e.op)](a, b)
    if isinstance(e, ast.Compare):
        l = ev(e.left, env)
        for op, c in zip(e.ops, e.comparators):
            r = ev(c, env)
            ok = {ast.Eq: lambda: l == r, ast.NotEq: lambda: l != r, ast.Lt: lambda: l < r, ast.LtE: lambda: l <= r, ast.Gt: lambda: l > r,
                  ast.GtE: lambda: l >= r, ast.Is: lambda: l is r, ast.IsNot: lambda: l is not r, ast.In: lambda: l in r, ast.NotIn: lambda: l not in r}[type(op)]()
            if getattr(type(ok), '_kv_array', False):
                if len(e.ops) != 1:
                    raise ModelError('minieval: chained comparison of arrays')
                return ok           # elementwise comparison of an array stand-in
            if not ok:
                return False
            l = r
        return True
    if isinstance(e, ast.IfExp):
        return ev(e.body, env) if ev(e.test, env) else ev(e.orelse, env)
    if isinstance(e, ast.Slice):
        return slice(None if e.lower is None else ev(e.lower, env), None if e.upper is None else ev(e.upper, env), None if e.step is None else ev(e.step, env))
    if isinstance(e, ast.NamedExpr) and isinstance(e.target, ast.Name):
        env[e.target.id] = ev(e.value, env)
        return env[e.target.id]
    if isinstance(e, (ast.Tuple, ast.List)):
        r = []
        for x in e.elts:
            if isinstance(x, ast.Starred):
                r.extend(ev(x.value, env))
            else:
                r.append(ev(x, env))
        return tuple(r) if isinstance(e, ast.Tuple) else r
    if isinstance(e, ast.JoinedStr):
        parts = []
        for v in e.values:
            if isinstance(v, ast.Constant):
                parts.append(str(v.value))
            elif isinstance(v, ast.FormattedValue) and v.conversion == -1 and v.format_spec is None:
                x = ev(v.value, env)
                if not isinstance(x, (str, int)):
                    return '<f-string>'      # text of a message: its exact content is not modelled
                parts.append(str(x))
            else:
                return '<f-string>'
        return ''.join(parts)
    if isinstance(e, ast.Dict):
        return {ev(k, env): ev(v, env) for k, v in zip(e.keys, e.values)}
    if isinstance(e, ast.DictComp):
        out = {}

        def dgen(k, env2):
            if k == len(e.generators):
                out[ev(e.key, env2)] = ev(e.value, env2)
                return
            g = e.generators[k]
            for item in ev(g.iter, env2):
                env3 = dict(env2)
                bind(g.target, item, env3)
                if all(ev(c, env3) for c in g.ifs):
                    dgen(k + 1, env3)
        dgen(0, env)
        return out
    if isinstance(e, ast.Call) and isinstance(e.func, ast.Name) and e.func.id == 'vars' and len(e.args) == 1 and not e.keywords:
        o = ev(e.args[0], env)
        if isinstance(o, NS):
            return vars(o)
        raise ModelError('minieval: vars() of an unmodelled object')
    if isinstance(e, ast.Call) and isinstance(e.func, ast.Attribute) and e.func.attr in ('values', 'items', 'keys', 'get', 'setdefault', 'update', 'pop', 'copy') and not e.keywords:
        b = ev(e.func.value, env)
        if isinstance(b, dict) and not isinstance(b, Rec):
            return getattr(b, e.func.attr)(*_args(e.args, env)) if e.func.attr in ('get', 'setdefault', 'update', 'pop', 'copy') else getattr(b, e.func.attr)()     # live views: changing the dict while iterating raises, as in Python
    if isinstance(e, (ast.GeneratorExp, ast.ListComp)):
        out = []

        def gen(k, env2):
            if k == len(e.generators):
                out.append(ev(e.elt, env2))
                return
            g = e.generators[k]
            for item in ev(g.iter, env2):
                env3 = dict(env2)
                bind(g.target, item, env3)
                if all(ev(c, env3) for c in g.ifs):
                    gen(k + 1, env3)
        gen(0, env)
        return out
    if isinstance(e, ast.Call) and isinstance(e.func, ast.Name) and e.func.id == 'isinstance' and len(e.args) == 2 and not e.keywords:
        types_ = {'str': str, 'tuple': tuple, 'list': list, 'int': int, 'float': float, 'dict': dict, 'bool': bool, 'range': range, 'set': set}
        t = e.args[1]
        names = [x.id for x in t.elts] if isinstance(t, ast.Tuple) and all(isinstance(x, ast.Name) for x in t.elts) else ([t.id] if isinstance(t, ast.Name) else None)
        if names and all(n in types_ or isinstance(env.get(n), type) for n in names):
            return isinstance(ev(e.args[0], env), tuple(env[n] if isinstance(env.get(n), type) else types_[n] for n in names))
        raise ModelError(f'minieval: isinstance with {ast.unparse(t)}')
    if isinstance(e, ast.Call) and isinstance(e.func, ast.Name) and e.func.id == 'map' and len(e.args) == 2 and not e.keywords and isinstance(e.args[0], ast.Name) \
            and isinstance(env.get(e.args[0].id), LocalFn):
        lf = env[e.args[0].id]
        return [call_function(lf.fdef, [x], lf.env) for x in ev(e.args[1], env)]
    if isinstance(e, ast.Call) and isinstance(e.func, ast.Name) and e.func.id == 'setattr' and len(e.args) == 3 and not e.keywords:
        o, a, v = ev(e.args[0], env), ev(e.args[1], env), ev(e.args[2], env)
        if isinstance(o, NS) and isinstance(a, str):
            setattr(o, a, v)
            return None
        raise ModelError('minieval: setattr on an unmodelled object')
    if isinstance(e, ast.Call) and isinstance(e.func, ast.Name) and e.func.id == 'map' and len(e.args) == 2 and not e.keywords and isinstance(e.args[0], ast.Name) \
            and e.args[0].id in ('int', 'float', 'str', 'bool') and e.args[0].id not in env:
        return [_CALLS[e.args[0].id](x) for x in ev(e.args[1], env)]
    if isinstance(e, ast.Call) and isinstance(e.func, ast.Name) and e.func.id == 'getattr' and len(e.args) in (2, 3) and not e.keywords:
        o, a = ev(e.args[0], env), ev(e.args[1], env)
        if isinstance(o, NS) and isinstance(a, str):
            if hasattr(o, a):
                return getattr(o, a)
            if len(e.args) == 3:
                return ev(e.args[2], env)
            raise AttributeError(a)
        raise ModelError('minieval: getattr on an unmodelled object')
    if isinstance(e, ast.Call) and isinstance(e.func, ast.Name) and e.func.id == 'hasattr' and len(e.args) == 2 and not e.keywords:
        o, a = ev(e.args[0], env), ev(e.args[1], env)
        if isinstance(o, (NS, tuple, str, int, list, dict)) or o is None:
            return hasattr(o, a)
        raise ModelError('minieval: hasattr on an unmodelled object')
    if isinstance(e, ast.Call) and isinstance(e.func, ast.Name) and isinstance(env.get(e.func.id), type) and getattr(env[e.func.id], '_kv_class', False):
        return env[e.func.id](*_args(e.args, env), **{k.arg: ev(k.value, env) for k in e.keywords if k.arg})      # a class of the rule (stand-in or evaluated)
    if isinstance(e, ast.Call) and isinstance(e.func, ast.Name) and e.func.id == 'defaultdict' and len(e.args) == 1 and isinstance(e.args[0], ast.Name) \
            and e.args[0].id in ('list', 'dict', 'int', 'set') and not e.keywords:
        import collections
        return collections.defaultdict({'list': list, 'dict': dict, 'int': int, 'set': set}[e.args[0].id])
    if isinstance(e, ast.Call) and isinstance(e.func, ast.Name) and e.func.id == 'product' and not e.keywords:
        import itertools
        args = []
        for a in e.args:
            if isinstance(a, ast.Starred):
                args.extend(ev(a.value, env))
            else:
                args.append(ev(a, env))
        return list(itertools.product(*args))
    if isinstance(e, ast.Call) and isinstance(e.func, ast.Name) and e.func.id == 'dict' and not e.args and not e.keywords:
        return {}
    if isinstance(e, ast.Call) and isinstance(e.func, ast.Name) and e.func.id == 'dict' and len(e.args) <= 1 and all(k.arg for k in e.keywords) and 'dict' not in env:
        return dict(*[ev(a, env) for a in e.args], **{k.arg: ev(k.value, env) for k in e.keywords})
    if isinstance(e, ast.Call) and isinstance(e.func, ast.Attribute) and e.func.attr in ('append', 'extend') and not e.keywords:
        recv = ev(e.func.value, env)
        if isinstance(recv, list) or type(recv).__name__ == 'deque':        # comprehension evaluated for its effect on a list the code itself created
            getattr(recv, e.func.attr)(*_args(e.args, env))
            return None
    if isinstance(e, ast.Call) and isinstance(e.func, ast.Name) and e.func.id == 'deque' and len(e.args) <= 1 and not e.keywords:
        import collections
        return collections.deque(*_args(e.args, env))
    if isinstance(e, ast.Call) and isinstance(e.func, ast.Attribute) and isinstance(e.func.value, ast.Name) and e.func.value.id == 'np' \
            and e.func.attr == 'zeros' and len(e.args) == 1 and all(k.arg == 'dtype' for k in e.keywords) and not isinstance(env.get('np'), NS):
        n = ev(e.args[0], env)
        if not isinstance(n, int):
            raise ModelError('minieval: np.zeros with a non-integer shape')
        return IntArr([0] * n)
    if isinstance(e, ast.Call) and isinstance(e.func, ast.Attribute) and e.func.attr in ('max', 'min') and not e.args and not e.keywords:
        b = ev(e.func.value, env)
        if isinstance(b, IntArr) or getattr(type(b), '_kv_array', False):
            return getattr(b, e.func.attr)()
        raise ModelError(f'minieval: .{e.func.attr}() on {type(b).__name__}')
    if isinstance(e, ast.Call) and isinstance(e.func, ast.Attribute) and e.func.attr in ('popleft', 'pop') and not e.keywords:
        import collections
        b = ev(e.func.value, env)
        if isinstance(b, collections.deque) or (isinstance(b, list) and e.func.attr == 'pop'):
            return getattr(b, e.func.attr)(*_args(e.args, env))    # IndexError on an empty container: what the code would raise
    if isinstance(e, ast.Call) and isinstance(e.func, ast.Attribute) and e.func.attr in ('free_index',) and not e.keywords:
        b = ev(e.func.value, env)
        if getattr(type(b), '_kv_class', False) and isinstance(b, list):
            return getattr(b, e.func.attr)(*_args(e.args, env))      # a method of a container stand-in of the rule
    if isinstance(e, ast.Call) and isinstance(e.func, ast.Name) and e.func.id in _CALLS and not e.keywords:
        return _CALLS[e.func.id](*_args(e.args, env))
    if isinstance(e, ast.Call) and isinstance(e.func, ast.Attribute) and isinstance(e.func.value, ast.Name) and e.func.value.id == 're' \
            and e.func.attr in ('sub', 'split', 'match', 'fullmatch', 'search', 'findall', 'compile') and not e.keywords:
        import re as _re
        return getattr(_re, e.func.attr)(*_args(e.args, env))   # the regular-expression engine applied to constant data
    if isinstance(e, ast.Call) and isinstance(e.func, ast.Attribute) and e.func.attr in (
            'startswith', 'endswith', 'lower', 'upper', 'find', 'rfind', 'index', 'partition', 'rpartition', 'strip', 'lstrip', 'rstrip', 'split',
            'replace', 'isspace', 'count', 'join', 'format', 'isdigit', 'isalpha', 'zfill', 'title', 'capitalize', 'splitlines', 'rsplit', 'removeprefix', 'removesuffix') and not e.keywords:
        b = ev(e.func.value, env)
        if isinstance(b, str):
            return getattr(b, e.func.attr)(*_args(e.args, env))
    if isinstance(e, ast.Call) and isinstance(e.func, ast.Attribute) and e.func.attr in ('sub', 'split', 'match', 'fullmatch', 'search', 'findall') and not e.keywords:
        import re as _re
        b = ev(e.func.value, env)
        if isinstance(b, _re.Pattern):        # a compiled constant pattern
            return getattr(b, e.func.attr)(*_args(e.args, env))
    if isinstance(e, ast.Call) and isinstance(e.func, ast.Name) and isinstance(env.get(e.func.id), LocalFn) and all(k.arg for k in e.keywords):
        lf = env[e.func.id]
        return call_function(lf.fdef, _args(e.args, env), lf.env, kwargs={k.arg: ev(k.value, env) for k in e.keywords})
    if isinstance(e, ast.Call) and isinstance(e.func, ast.Attribute) and all(k.arg for k in e.keywords):
        # a method of one of the rule's stand-in objects: the rule supplies a recording stub (marked _kv_stub)
        b = ev(e.func.value, env)
        if isinstance(b, NS) and callable(getattr(b, e.func.attr, None)) and getattr(getattr(b, e.func.attr), '_kv_stub', False):
            return getattr(b, e.func.attr)(*_args(e.args, env), **{k.arg: ev(k.value, env) for k in e.keywords})
    if isinstance(e, ast.Call) and isinstance(e.func, ast.Name) and getattr(env.get(e.func.id), '_kv_stub', False) and all(k.arg for k in e.keywords):
        return env[e.func.id](*_args(e.args, env), **{k.arg: ev(k.value, env) for k in e.keywords})     # a stand-in constructor / function of the rule
    if isinstance(e, ast.Call) and isinstance(e.func, ast.Attribute) and all(k.arg for k in e.keywords):
        b = ev(e.func.value, env)
        if getattr(type(b), '_kv_array', False):
            if e.func.attr in type(b)._kv_methods:
                return getattr(b, e.func.attr)(*_args(e.args, env), **{k.arg: ev(k.value, env) for k in e.keywords})    # a method of an array stand-in
            raise ModelError(f'minieval: array method .{e.func.attr}()')
    if isinstance(e, ast.Call) and isinstance(e.func, ast.Subscript) and all(k.arg for k in e.keywords):
        f = ev(e.func, env)         # kernel[grid, block](...): the rule supplies the launcher
        if getattr(f, '_kv_stub', False):
            return f(*_args(e.args, env), **{k.arg: ev(k.value, env) for k in e.keywords})
    raise ModelError(f'minieval: expression outside the subset: {ast.unparse(e)[:80]}')


def bind(target, value, env):
    if isinstance(target, ast.Name):
        env[target.id] = value
    elif isinstance(target, (ast.Tuple, ast.List)):
        vals = list(value)
        star = [k for k, t in enumerate(target.elts) if isinstance(t, ast.Starred)]
        if len(star) == 1:
            k = star[0]
            after = len(target.elts) - k - 1
            if len(vals) < len(target.elts) - 1:
                raise ValueError('not enough values to unpack')
            for t, v in zip(target.elts[:k], vals[:k]):
                bind(t, v, env)
            bind(target.elts[k].value, vals[k:len(vals) - after], env)
            for t, v in zip(target.elts[k + 1:], vals[len(vals) - after:] if after else []):
                bind(t, v, env)
            return
        if len(vals) != len(target.elts):
            raise ValueError('unpacking arity')       # what the code itself would raise
        for t, v in zip(target.elts, vals):
            bind(t, v, env)
    elif isinstance(target, ast.Subscript):
        base = ev(target.value, env)
        if isinstance(base, Rec):
            base.put(ev(target.slice, env), value)
        elif isinstance(base, (list, dict, IntArr)) or getattr(type(base), '_kv_array', False):
            base[ev(target.slice, env)] = value
        else:
            raise ModelError(f'minieval: item store into {type(base).__name__}')
    elif isinstance(target, ast.Attribute):
        base = ev(target.value, env)
        if not isinstance(base, NS):
            raise ModelError('minieval: attribute store')
        setattr(base, target.attr, value)
    else:
        raise ModelError(f'minieval: binding target {ast.unparse(target)}')


class LocalFn:
    def __init__(self, fdef, env):
        self.fdef, self.env = fdef, env


class Returned(Exception):
    def __init__(self, value):
        self.value = value


def call_function(fdef, args, env=None, kwargs=None):
    """Value returned by running the body of fdef (subset) with positional (and keyword) args bound to its parameters."""
    e = dict(env or {})
    params = [a.arg for a in fdef.args.args]
    defaults = fdef.args.defaults
    kwargs = kwargs or {}
    if len(args) > len(params):
        raise ModelError('minieval: call arity')
    e.update(zip(params, args))
    for k_, v_ in kwargs.items():
        if k_ not in params or k_ in params[:len(args)]:
            raise TypeError(f'{fdef.name}() got an unexpected or repeated keyword argument {k_!r}')      # what the code itself would raise
        e[k_] = v_
    for k in range(len(args), len(params)):       # parameters left to their default values
        if params[k] in kwargs:
            continue
        if k < len(params) - len(defaults):
            raise ModelError('minieval: call arity')
        e[params[k]] = ev(defaults[k - (len(params) - len(defaults))], e)
    body = fdef.body
    if body and isinstance(body[0], ast.Expr) and isinstance(body[0].value, ast.Constant) and isinstance(body[0].value.value, str):
        body = body[1:]
    if any(isinstance(n, (ast.Yield, ast.YieldFrom)) for n in _own_nodes(fdef)):
        # a generator function: evaluated eagerly, the value is the list of yielded items. Equivalent to lazy evaluation as long as the
        # consumer does not change anything the generator reads while it is suspended (the rules using this state that assumption)
        e['__yield__'] = []
        try:
            run(body, e)
        except Returned:
            pass
        return e['__yield__']
    try:
        run(body, e)
    except Returned as r:
        return r.value
    return None


def _own_nodes(fdef):
    st = list(fdef.body)
    while st:
        n = st.pop()
        yield n
        for c in ast.iter_child_nodes(n):
            if not isinstance(c, (ast.FunctionDef, ast.Lambda, ast.ClassDef)):
                st.append(c)


def run(stmts, env):
    """Execute assignments / if / for / break over the subset; returns 'break' | 'continue' | None; `return` raises Returned."""
    for st in stmts:
        if isinstance(st, ast.Return):
            raise Returned(ev(st.value, env) if st.value is not None else None)
        if isinstance(st, ast.FunctionDef):
            env[st.name] = LocalFn(st, env)     # a local helper: a closure over the current environment
            continue
        if isinstance(st, ast.Expr) and isinstance(st.value, ast.Call) and isinstance(st.value.func, ast.Attribute) and isinstance(st.value.func.value, ast.Name) \
                and st.value.func.value.id == 'log':
            continue      # logging
        if isinstance(st, ast.Assert):
            if not ev(st.test, env):
                raise AssertionError('assert')
            continue
        if isinstance(st, ast.Expr) and isinstance(st.value, ast.Constant):
            continue
        if isinstance(st, ast.Expr) and isinstance(st.value, (ast.ListComp, ast.GeneratorExp)):
            ev(st.value, env)
            continue
        if isinstance(st, ast.Expr) and isinstance(st.value, ast.Call) and isinstance(st.value.func, ast.Name) and st.value.func.id == 'print':
            continue
        if isinstance(st, ast.Expr) and isinstance(st.value, ast.Call) and isinstance(st.value.func, ast.Attribute) and st.value.func.attr == '__init__' \
                and isinstance(st.value.func.value, ast.Call) and isinstance(st.value.func.value.func, ast.Name) and st.value.func.value.func.id == 'super':
            continue      # the constructor of a base class that is not part of the analysed code (lark.Transformer)
        if isinstance(st, ast.Expr) and isinstance(st.value, ast.Call) and isinstance(st.value.func, ast.Name) and st.value.func.id == 'setattr' and 'setattr' not in env:
            ev(st.value, env)
            continue
        if isinstance(st, ast.Expr) and isinstance(st.value, ast.Call) and isinstance(st.value.func, ast.Name) and (
                getattr(env.get(st.value.func.id), '_kv_class', False) or getattr(env.get(st.value.func.id), '_kv_stub', False)
                or isinstance(env.get(st.value.func.id), LocalFn)):
            ev(st.value, env)       # a constructor / function of the rule, or a local helper, called for its effect on stand-in objects
            continue
        if isinstance(st, ast.Expr) and isinstance(st.value, ast.Call) and isinstance(st.value.func, ast.Subscript):
            ev(st.value, env)      # kernel[grid, block](...) with a launcher of the rule (anything else raises ModelError)
            continue
        if isinstance(st, ast.Expr) and isinstance(st.value, ast.Yield):
            if '__yield__' not in env:
                raise ModelError('minieval: yield outside an evaluated generator function')
            env['__yield__'].append(ev(st.value.value, env) if st.value.value is not None else None)
            continue
        if isinstance(st, ast.Expr) and isinstance(st.value, ast.YieldFrom):
            if '__yield__' not in env:
                raise ModelError('minieval: yield outside an evaluated generator function')
            env['__yield__'].extend(list(ev(st.value.value, env)))
            continue
        if isinstance(st, ast.While) and not st.orelse:
            fuel = FUEL
            stop = None
            while ev(st.test, env):
                fuel -= 1
                if fuel < 0:
                    raise RuntimeError('loop does not terminate within the evaluation bound')
                r = run(st.body, env)
                if r == 'break':
                    break
            continue
        if isinstance(st, ast.AugAssign) and isinstance(st.target, ast.Subscript):
            base = ev(st.target.value, env)
            if isinstance(base, Rec):
                k = ev(st.target.slice, env)
                tmp = dict(env)
                tmp['__cur__'] = base[freeze(k)]
                base.put(k, ev(ast.BinOp(left=ast.Name(id='__cur__', ctx=ast.Load()), op=st.op, right=st.value), tmp))
                continue
            if not isinstance(base, (list, dict, IntArr)) and not getattr(type(base), '_kv_array', False):
                raise ModelError('minieval: augmented item store')
            k = ev(st.target.slice, env)
            cur = base[k]
            tmp = dict(env)
            tmp['__cur__'] = cur
            base[k] = ev(ast.BinOp(left=ast.Name(id='__cur__', ctx=ast.Load()), op=st.op, right=st.value), tmp)
            continue
        if isinstance(st, ast.Expr) and isinstance(st.value, ast.Call) and isinstance(st.value.func, ast.Attribute) \
                and st.value.func.attr in ('append', 'appendleft', 'extend', 'extendleft', 'popleft', 'pop', 'clear') and not st.value.keywords \
                and type(ev(st.value.func.value, env)).__name__ == 'deque':
            getattr(ev(st.value.func.value, env), st.value.func.attr)(*_args(st.value.args, env))
            continue
        if isinstance(st, ast.Expr) and isinstance(st.value, ast.Call) and isinstance(st.value.func, ast.Attribute) \
                and st.value.func.attr in ('update', 'discard', 'difference_update') and not st.value.keywords \
                and isinstance(st.value.func.value, ast.Name) and isinstance(env.get(st.value.func.value.id), set):
            getattr(env[st.value.func.value.id], st.value.func.attr)(*[set(a) if not isinstance(a, (int, str)) else a for a in _args(st.value.args, env)])
            continue      # a set the code itself created, updated in place
        if isinstance(st, ast.Expr) and isinstance(st.value, ast.Call) and isinstance(st.value.func, ast.Attribute) \
                and st.value.func.attr not in ('append', 'extend', 'reverse', 'insert', 'add'):
            ev(st.value, env)      # stub method of a stand-in object (anything else raises ModelError)
            continue
        if isinstance(st, ast.Expr) and isinstance(st.value, ast.Call) and isinstance(st.value.func, ast.Attribute) \
                and st.value.func.attr in ('append', 'extend', 'reverse', 'insert', 'add') and not st.value.keywords:
            recv = ev(st.value.func.value, env)
            if isinstance(recv, NS) and getattr(getattr(recv, st.value.func.attr, None), '_kv_stub', False):
                ev(st.value, env)          # a recording stub of the rule that happens to be called append / add / ...
                continue
            if not isinstance(recv, (list, set)):
                raise ModelError(f'minieval: {st.value.func.attr} on {type(recv).__name__}')
            getattr(recv, st.value.func.attr)(*_args(st.value.args, env))
            continue
        if isinstance(st, ast.Assign) and len(st.targets) > 1:
            v = ev(st.value, env)      # chained assignment a = b.c = value (targets are bound left to right)
            for t in st.targets:
                bind(t, v, env)
            continue
        if isinstance(st, ast.Assign) and len(st.targets) == 1 and isinstance(st.targets[0], ast.Attribute):
            base = ev(st.targets[0].value, env)
            if base is None:
                raise AttributeError(f"'NoneType' object has no attribute {st.targets[0].attr!r}")      # what the code itself would raise
            if not isinstance(base, NS):
                raise ModelError('minieval: attribute store')
            setattr(base, st.targets[0].attr, ev(st.value, env))
            continue
        if isinstance(st, ast.Assign) and len(st.targets) == 1 and isinstance(st.targets[0], ast.Subscript):
            base = ev(st.targets[0].value, env)
            if isinstance(base, Rec):
                base.put(ev(st.targets[0].slice, env), ev(st.value, env))
                continue
            if not isinstance(base, (list, dict, IntArr)) and not getattr(type(base), '_kv_array', False):
                raise ModelError('minieval: item store')
            base[ev(st.targets[0].slice, env)] = ev(st.value, env)
            continue
        if isinstance(st, ast.AnnAssign) and st.value is not None:
            bind(st.target, ev(st.value, env), env)
            continue
        if isinstance(st, ast.Delete):
            for t in st.targets:
                if not isinstance(t, ast.Subscript):
                    raise ModelError('minieval: del of a name / attribute')
                base = ev(t.value, env)
                if not isinstance(base, (list, dict)) or isinstance(base, Rec):
                    raise ModelError('minieval: del on an unmodelled container')
                del base[ev(t.slice, env)]
            continue
        if isinstance(st, ast.Assign) and len(st.targets) == 1:
            bind(st.targets[0], ev(st.value, env), env)
        elif isinstance(st, ast.AugAssign) and isinstance(st.target, ast.Name):
            env[st.target.id] = ev(ast.BinOp(left=ast.Name(id=st.target.id, ctx=ast.Load()), op=st.op, right=st.value), env)
        elif isinstance(st, ast.If):
            r = run(st.body if ev(st.test, env) else st.orelse, env)
            if r:
                return r
        elif isinstance(st, ast.For) and not st.orelse:
            for item in ev(st.iter, env):
                bind(st.target, item, env)
                r = run(st.body, env)
                if r == 'break':
                    break
        elif isinstance(st, ast.Break):
            return 'break'
        elif isinstance(st, ast.Continue):
            return 'continue'
        elif isinstance(st, ast.Pass):
            pass
        else:
            raise ModelError(f'minieval: statement outside the subset: {ast.unparse(st)[:80]}')
    return None


def bind_class(ns, classdef, genv, skip=('__init__',)):
    """Give the stand-in object `ns` the methods its class defines (other than `skip` and those the rule already set): each is evaluated in
    Engine M when called, with `genv` as the module-level environment. Static methods get no receiver."""
    for st in classdef.body:
        if isinstance(st, ast.FunctionDef) and st.name not in skip and not hasattr(ns, st.name):
            decos = {d.id if isinstance(d, ast.Name) else getattr(d, 'attr', None) for d in st.decorator_list}
            if decos - {'staticmethod'}:
                continue        # properties, classmethods, jit wrappers: not modelled (use raises ModelError through the attribute lookup)

            def mk(fdef, static):
                def call(*args):
                    return call_function(fdef, list(args) if static else [ns] + list(args), genv)
                return stub(call)
            setattr(ns, st.name, mk(st, 'staticmethod' in decos))
    return ns


def module_functions(tree, genv):
    """Module-level functions as callables of Engine M (closures over genv, which they are added to)."""
    for st in tree.body:
        if isinstance(st, ast.FunctionDef) and st.name not in genv:
            genv[st.name] = LocalFn(st, genv)
    for st in tree.body:
        # compiled aliases of a module function: x = numba.njit(f) / x = cuda.jit(f, device=True) behave as f
        if isinstance(st, ast.Assign) and len(st.targets) == 1 and isinstance(st.targets[0], ast.Name) and isinstance(st.value, ast.Call) \
                and ast.unparse(st.value.func) in ('numba.njit', 'cuda.jit', 'numba.jit') and st.value.args and isinstance(st.value.args[0], ast.Name) \
                and isinstance(genv.get(st.value.args[0].id), LocalFn) and st.targets[0].id not in genv:
            genv[st.targets[0].id] = genv[st.value.args[0].id]
    return genv


def make_class(classdef, genv, base=None):
    """A Python class standing for a (data) class of the analysed module: constructing it evaluates the class's own __init__ in Engine M,
    reading a property or calling a method evaluates that function. Instances are NS objects (identity semantics)."""
    funcs = {st.name: st for st in classdef.body if isinstance(st, ast.FunctionDef)}

    class K(base or NS):
        _kv_class = True
        _kv_name = classdef.name

        def __init__(self, *args, **kw):
            super().__init__()
            if '__init__' in funcs:
                fd = funcs['__init__']
                params = [a.arg for a in fd.args.args][1:]
                pos = list(args)
                for k, v in kw.items():
                    if k not in params:
                        raise TypeError(f'unexpected keyword {k}')
                vals = {}
                for p_, v in zip(params, pos):
                    vals[p_] = v
                vals.update(kw)
                call_function(fd, [self] + [vals[p_] for p_ in params if p_ in vals], genv) if len(vals) >= len(params) - len(fd.args.defaults) else (_ for _ in ()).throw(TypeError('missing argument'))

        def __getattr__(self, name):
            fd = funcs.get(name)
            if fd is None or (name.startswith('__') and name not in ('__getstate__', '__setstate__')):
                raise AttributeError(name)
            decos = {d.id if isinstance(d, ast.Name) else getattr(d, 'attr', None) for d in fd.decorator_list}
            if 'property' in decos:
                return call_function(fd, [self], genv)
            me = self

            def call(*a):
                return call_function(fd, ([] if 'staticmethod' in decos else [me]) + list(a), genv)
            return stub(call)
    for _d in ('__getstate__', '__setstate__'):
        if _d in funcs:
            def _mk(fd):
                def m(self, *a):
                    return call_function(fd, [self] + list(a), genv)
                return m
            setattr(K, _d, _mk(funcs[_d]))      # object defines these itself: the class's own must take precedence
    K.__name__ = classdef.name
    return K


class TokenStr(str):
    """Stand-in for lark's Token: a str subclass whose .value is the text."""
    _kv_token = True

    def __new__(cls, text, type_='TOKEN'):
        o = super().__new__(cls, text)
        o.type = type_
        return o

    @property
    def value(self):
        return str(self)
