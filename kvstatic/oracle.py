"""Independent oracles, written from the property statements and the documentation in logic.py:14-27.

1. LUT family table: Boolean formulas over i0..i3 for the 33 primitives.
2. Multi-valued algebra: (final, initial, activity) triples with two unknown codes.
"""
from __future__ import annotations

from functools import lru_cache

# --------------------------------------------------------------------------- Boolean families

def _and(*x):
    r = 1
    for v in x:
        r &= v
    return r


def _or(*x):
    r = 0
    for v in x:
        r |= v
    return r


def _xor(*x):
    r = 0
    for v in x:
        r ^= v
    return r


def _n(f):
    return lambda *x: 1 - f(*x)


# name -> (arity, formula over that many leading operands)
FAMILY = {
    'BUF1': (1, lambda a: a),
    'INV1': (1, lambda a: 1 - a),
    'AO21': (3, lambda a, b, c: (a & b) | c),
    'AO22': (4, lambda a, b, c, d: (a & b) | (c & d)),
    'OA21': (3, lambda a, b, c: (a | b) & c),
    'OA22': (4, lambda a, b, c, d: (a | b) & (c | d)),
    'AO211': (4, lambda a, b, c, d: (a & b) | c | d),
    'OA211': (4, lambda a, b, c, d: (a | b) & c & d),
    'MUX21': (3, lambda a, b, s: b if s else a),
}
for _k in (2, 3, 4):
    FAMILY[f'AND{_k}'] = (_k, _and)
    FAMILY[f'OR{_k}'] = (_k, _or)
    FAMILY[f'XOR{_k}'] = (_k, _xor)
    FAMILY[f'NAND{_k}'] = (_k, _n(_and))
    FAMILY[f'NOR{_k}'] = (_k, _n(_or))
    FAMILY[f'XNOR{_k}'] = (_k, _n(_xor))
for _b in ('AO21', 'AO22', 'OA21', 'OA22', 'AO211', 'OA211'):
    _a, _f = FAMILY[_b]
    FAMILY[_b[:2] + 'I' + _b[2:]] = (_a, _n(_f))

assert len(FAMILY) == 33

# canonical multi-valued composition of each primitive: nested tuples (op, args...), leaves are operand indices
def _canon(name):
    def inv(t):
        return ('not', t)
    base = {
        'BUF1': 0,
        'INV1': ('not', 0),
        'AO21': ('or', ('and', 0, 1), 2),
        'AO22': ('or', ('and', 0, 1), ('and', 2, 3)),
        'OA21': ('and', ('or', 0, 1), 2),
        'OA22': ('and', ('or', 0, 1), ('or', 2, 3)),
        'AO211': ('or', ('and', 0, 1), 2, 3),
        'OA211': ('and', ('or', 0, 1), 2, 3),
        'MUX21': ('or', ('and', 0, ('not', 2)), ('and', 1, 2)),
    }
    if name in base:
        return base[name]
    for fam, op in (('NAND', 'and'), ('NOR', 'or'), ('XNOR', 'xor')):
        if name.startswith(fam) and name[len(fam):].isdigit():
            return inv((op, *range(int(name[len(fam):]))))
    for fam, op in (('AND', 'and'), ('OR', 'or'), ('XOR', 'xor')):
        if name.startswith(fam) and name[len(fam):].isdigit():
            return (op, *range(int(name[len(fam):])))
    if name[2:3] == 'I' and (name[:2] + name[3:]) in base:
        return inv(base[name[:2] + name[3:]])
    raise KeyError(name)


CANON = {n: _canon(n) for n in FAMILY}


def family_table(name):
    """16-bit truth table of the named primitive; row index = i0 + 2*i1 + 4*i2 + 8*i3."""
    k, f = FAMILY[name]
    t = 0
    for row in range(16):
        bits = [(row >> j) & 1 for j in range(4)]
        if f(*bits[:k]):
            t |= 1 << row
    return t


# prefix (lower case, as in sim.kind_prefixes) -> family base whose arity-n member is expected;
# None arity = fixed-arity family
PREFIX_FAMILY = {
    'nand': 'NAND', 'nor': 'NOR', 'and': 'AND', 'or': 'OR', 'xor': 'XOR', 'xnor': 'XNOR',
    'isolor': 'OR2',
    'not': 'INV1', 'inv': 'INV1', 'ibuf': 'INV1', '__const1__': 'INV1', 'tieh': 'INV1',
    'buf': 'BUF1', 'nbuf': 'BUF1', 'delln': 'BUF1', '__const0__': 'BUF1', 'tiel': 'BUF1',
    'ao211': 'AO211', 'oa211': 'OA211', 'aoi211': 'AOI211', 'oai211': 'OAI211',
    'ao22': 'AO22', 'aoi22': 'AOI22', 'ao21': 'AO21', 'aoi21': 'AOI21',
    'oa22': 'OA22', 'oai22': 'OAI22', 'oa21': 'OA21', 'oai21': 'OAI21',
    'mux21': 'MUX21',
}
VARIADIC = {'NAND', 'NOR', 'AND', 'OR', 'XOR', 'XNOR'}


# --------------------------------------------------------------------------- multi-valued algebra

ZERO, UNKNOWN, UNASSIGNED, ONE, PPULSE, RISE, FALL, NPULSE = range(8)


def _dec(v):
    return v & 1, (v >> 1) & 1, (v >> 2) & 1   # final, initial, activity


def _unk(v):
    f, i, a = _dec(v)
    return a == 0 and f != i


def _enc(f, i, a):
    return f | (i << 1) | (a << 2)


def mv_not(v):
    if _unk(v):
        return UNKNOWN
    f, i, a = _dec(v)
    return _enc(1 - f, 1 - i, a)


def mv_buf(v):
    return UNKNOWN if _unk(v) else v


def mv_and(*vs):
    if any(v == ZERO for v in vs):
        return ZERO
    if any(_unk(v) for v in vs):
        return UNKNOWN
    f = i = 1
    a = 0
    for v in vs:
        vf, vi, va = _dec(v)
        f &= vf
        i &= vi
        a |= va
    return _enc(f, i, a)


def mv_or(*vs):
    if any(v == ONE for v in vs):
        return ONE
    if any(_unk(v) for v in vs):
        return UNKNOWN
    f = i = a = 0
    for v in vs:
        vf, vi, va = _dec(v)
        f |= vf
        i |= vi
        a |= va
    return _enc(f, i, a)


def mv_xor(*vs):
    if any(_unk(v) for v in vs):
        return UNKNOWN
    f = i = a = 0
    for v in vs:
        vf, vi, va = _dec(v)
        f ^= vf
        i ^= vi
        a |= va
    return _enc(f, i, a)


OPS = {'not': mv_not, 'and': mv_and, 'or': mv_or, 'xor': mv_xor, 'buf': mv_buf}


def op_table(op, k, radix):
    """Per-row result of oracle operator `op` on k operands over values 0..radix-1 (radix 4: activity 0)."""
    f = OPS[op]
    n = radix ** k
    out = []
    for row in range(n):
        vs = [(row // radix ** j) % radix for j in range(k)]
        out.append(f(*vs))
    return out


def eval_tree(tree, vals, ops=OPS):
    if isinstance(tree, int):
        return vals[tree]
    return ops[tree[0]](*[eval_tree(t, vals, ops) for t in tree[1:]])


def canon_table(name, radix, ops=OPS):
    """Per-row (8^4 or 4^4 rows over i0..i3) result of the canonical composition of primitive `name`.
    BUF1 is a plain copy in the simulators (values pass unchanged)."""
    tree = CANON[name]
    out = []
    for row in range(radix ** 4):
        vs = [(row // radix ** j) % radix for j in range(4)]
        out.append(eval_tree(tree, vs, ops))
    return out


def known(v):
    return not _unk(v)


def bool_of(v):
    """(initial, final) for a known value."""
    f, i, _ = _dec(v)
    return i, f
