"""Engine E - grammar <-> transformer agreement.

The grammar string constant is extracted from the module with ast and compiled with the same lark the
repository uses (lark-parser in /venv); kyupy itself is not imported. From the compiled rule list the
sequence of *kept* children of every user-visible rule is derived (filtered tokens dropped, `_inline`
rules and the `__x_star_n` helper rules spliced in, `?rule` single-child alternatives bypassing their
callback), and compared with how the transformer method of that name indexes its `args`.
"""
from __future__ import annotations

import ast

from .core import Repo, ModelError, AnchorError, norm
from .astutil import find_all, attr_chain, is_name, call_name, body_no_doc, target_names, walk_no_nested_funcs, parents


def extract_grammar(mod, name='GRAMMAR'):
    st = [s for s in mod.tree.body if isinstance(s, ast.Assign) and is_name(s.targets[0], name)]
    if len(st) != 1 or not isinstance(st[0].value, ast.Constant) or not isinstance(st[0].value.value, str):
        raise AnchorError(f'{mod.name}.{name} is not a string constant')
    return st[0].value.value, st[0]


class Grammar:
    def __init__(self, text, modname):
        try:
            from lark import Lark
        except ImportError as e:   # pragma: no cover
            raise ModelError(f'lark is not importable in this interpreter: {e}')
        try:
            self.lark = Lark(text, parser='lalr')
        except Exception as e:  # noqa: BLE001
            raise ModelError(f'{modname}.GRAMMAR does not compile: {type(e).__name__}: {str(e)[:200]}')
        self.text = text
        self.alts = {}       # origin name -> [ (symbols, alias, expand1) ]
        for r in self.lark.rules:
            self.alts.setdefault(r.origin.name, []).append((list(r.expansion), r.alias, r.options.expand1, r.options.keep_all_tokens))
        self.terminals = {t.name: t for t in self.lark.terminals}
        self._empty = self._compute_empty()
        self._shape_cache = {}

    # ---- classification of names
    @staticmethod
    def is_helper(name):
        return name.startswith('__')

    @staticmethod
    def is_inline(name):
        return name.startswith('_') and not name.startswith('__')

    def user_rules(self):
        return [n for n in self.alts if not n.startswith('_')]

    def callback_names(self):
        """rule/alias names a Transformer callback can be invoked for, with their alternatives."""
        out = {}
        for n, alts in self.alts.items():
            if n.startswith('_'):
                continue
            for syms, alias, expand1, keep in alts:
                out.setdefault(alias or n, []).append((n, syms, expand1))
        return out

    # ---- which inline/helper rules yield no children at all
    def _compute_empty(self):
        """Greatest fixpoint: underscore rules (inline and helper) that can never contribute a kept child."""
        empty = {n for n in self.alts if n.startswith('_')}
        changed = True
        while changed:
            changed = False
            for n in list(empty):
                if not all(all(self._sym_empty(s, empty) for s in syms) for syms, *_ in self.alts[n]):
                    empty.discard(n)
                    changed = True
        return empty

    def _sym_empty(self, s, empty):
        if s.is_term:
            return bool(s.filter_out)
        return s.name in empty

    # ---- child sequences
    def sequences(self, syms, maxlen=9, _stack=()):
        """Set of possible kept-child kind tuples (truncated to maxlen) for a symbol sequence.
        kinds: 'T:<TERMINAL>' kept token, 'R:<rule>' result of a user rule."""
        seqs = {()}
        for s in syms:
            opts = self.sym_sequences(s, maxlen, _stack)
            new = set()
            for a in seqs:
                if len(a) >= maxlen:
                    new.add(a)
                    continue
                for b in opts:
                    new.add((a + b)[:maxlen])
            seqs = new
        return seqs

    def sym_sequences(self, s, maxlen, _stack):
        if s.is_term:
            return {()} if s.filter_out else {('T:' + s.name,)}
        n = s.name
        if n in self._empty:
            return {()}
        if not n.startswith('_'):
            return {('R:' + n,)}
        key = (n, maxlen)
        if key in self._shape_cache:
            return self._shape_cache[key]
        if n in _stack:
            raise ModelError(f'grammar: recursive inline rule {n} yields children - not supported')
        alts = self.alts[n]
        if self.is_helper(n):
            # helper: base alternatives, and recursive ones `helper base`
            base = [syms for syms, *_ in alts if not (syms and not syms[0].is_term and syms[0].name == n)]
            rec = [syms[1:] for syms, *_ in alts if syms and not syms[0].is_term and syms[0].name == n]
            one = set()
            for syms in base:
                one |= self.sequences(syms, maxlen, _stack + (n,))
            step = set()
            for syms in rec:
                step |= self.sequences(syms, maxlen, _stack + (n,))
            out = set(one)
            frontier = set(one)
            for _ in range(maxlen + 1):
                nxt = set()
                for a in frontier:
                    if len(a) >= maxlen:
                        continue
                    for b in step:
                        c = (a + b)[:maxlen]
                        if c not in out:
                            nxt.add(c)
                out |= nxt
                frontier = nxt
                if not frontier:
                    break
            self._shape_cache[key] = out
            return out
        out = set()
        for syms, *_ in alts:
            out |= self.sequences(syms, maxlen, _stack + (n,))
        self._shape_cache[key] = out
        return out

    def callback_sequences(self, cbname, maxlen=9):
        """All kept-child sequences with which the callback `cbname` can be invoked."""
        out = set()
        for origin, syms, expand1 in self.callback_names().get(cbname, []):
            for seq in self.sequences(syms, maxlen):
                if expand1 and len(seq) == 1:
                    continue       # ?rule with a single child is replaced by that child; callback not called
                out.add(seq)
        return out

    def passthrough(self, origin):
        """For a ?rule: kinds that replace the rule node when an alternative has exactly one child."""
        out = set()
        for syms, alias, expand1, keep in self.alts.get(origin, []):
            if expand1:
                for seq in self.sequences(syms):
                    if len(seq) == 1:
                        out.add(seq[0])
        return out


# --------------------------------------------------------------------------- transformer side

class Handler:
    def __init__(self, fdef, argname):
        self.fdef = fdef
        self.arg = argname
        self.index_uses = []     # (k:int, node, guarded:bool)
        self.slice_uses = []     # (lower:int|None, node)
        self.value_uses = []     # (k, node) for args[k].value / .lower()/... token-only attributes
        self.tree_uses = []      # (k, node) for args[k].children / .data
        self.sub_uses = []       # (k, node) for args[k][j]
        self.whole_uses = []     # args used as a whole (iteration, len, passed on)
        self.len_tests = []


TOKEN_ATTRS = ('value', 'type', 'line', 'column')
STR_METHODS = ('lower', 'upper', 'strip', 'replace', 'split', 'startswith', 'endswith')
TREE_ATTRS = ('children', 'data')


def analyse_handler(fdef):
    params = [a.arg for a in fdef.args.args]
    deco = [norm(d) for d in fdef.decorator_list]
    argname = params[0] if 'staticmethod' in deco else (params[1] if len(params) > 1 else None)
    if argname is None:
        raise ModelError(f'transformer method {fdef.name} has no args parameter')
    h = Handler(fdef, argname)
    for n in ast.walk(fdef):
        if isinstance(n, ast.Name) and n.id == argname and isinstance(n.ctx, ast.Load):
            p = getattr(n, '_parent', None)
            guarded = any(isinstance(q, (ast.If, ast.IfExp)) and f'len({argname})' in norm(q.test).replace(' ', '') for q in parents(n))
            if isinstance(p, ast.Subscript) and p.value is n:
                sl = p.slice
                if isinstance(sl, ast.Constant) and isinstance(sl.value, int):
                    k = sl.value
                    h.index_uses.append((k, p, guarded))
                    pp = getattr(p, '_parent', None)
                    if isinstance(pp, ast.Attribute) and pp.value is p:
                        if pp.attr in TOKEN_ATTRS:
                            h.value_uses.append((k, pp))
                        elif pp.attr in TREE_ATTRS:
                            h.tree_uses.append((k, pp))
                        elif pp.attr in STR_METHODS:
                            h.value_uses.append((k, pp)) if False else None
                    elif isinstance(pp, ast.Subscript) and pp.value is p:
                        h.sub_uses.append((k, pp))
                elif isinstance(sl, ast.UnaryOp) and isinstance(sl.op, ast.USub) and isinstance(sl.operand, ast.Constant):
                    h.index_uses.append((-sl.operand.value, p, guarded))
                elif isinstance(sl, ast.Slice):
                    lo = sl.lower.value if isinstance(sl.lower, ast.Constant) else (0 if sl.lower is None else None)
                    h.slice_uses.append((lo, p))
                else:
                    h.whole_uses.append(p)
            elif isinstance(p, ast.Call) and call_name(p) == 'len':
                h.len_tests.append(p)
            else:
                h.whole_uses.append(p)
        elif isinstance(n, ast.Tuple) and isinstance(getattr(n, '_parent', None), ast.Assign) and n._parent.targets[0] is n and is_name(n._parent.value, argname):
            # name, cell_type, drivers = args
            for k, e in enumerate(n.elts):
                h.index_uses.append((k, n._parent, False))
            h.index_uses.append((len(n.elts) - 1, n._parent, False))
            h.whole_uses.append(('unpack', len(n.elts), n._parent))
    return h


def transformer_methods(mod, clsname):
    cls = mod.cls(clsname)
    out = {}
    for st in cls.body:
        if isinstance(st, ast.FunctionDef) and not st.name.startswith('__'):
            out[st.name] = st
    return cls, out


def check_agreement(rep, rid, mod, gram: Grammar, clsname, consumed_as_tree=(), helper_methods=()):
    """Generic rules: arity, kind, exhaustiveness, dead callbacks. Returns (methods, handlers)."""
    cls, methods = transformer_methods(mod, clsname)
    cbs = gram.callback_names()
    handlers = {}
    n = 0
    for name, fdef in methods.items():
        if name in helper_methods:
            continue
        if name.startswith('_') and name not in cbs:
            continue        # a private helper: lark looks callbacks up by rule name, and rules whose name starts with `_` are inlined and never transformed
        if name not in cbs:
            rep.ob(rid, f'{clsname}.{name}: has a rule', False)
            rep.violate(rid, mod, fdef, f'def {name}(...)', f'{clsname}.{name} matches no rule or alias of the grammar (dead callback: the rule it was written for is never transformed)', node=fdef)
            continue
        h = analyse_handler(fdef)
        handlers[name] = h
        need = max([3] + [(k + 2 if k >= 0 else -k + 1) for k, _, _ in h.index_uses] + [u[1] + 1 for u in h.whole_uses if isinstance(u, tuple)])
        seqs = gram.callback_sequences(name, maxlen=min(9, need))
        if not seqs:
            continue
        n += 1
        minlen = min(len(s) for s in seqs)
        disp = keyword_dispatch(fdef, h.arg)
        kw_of = {}
        if disp:
            for sq in seqs:
                if sq and sq[0].startswith('T:') and sq[0][2:] in gram.terminals:
                    kw_of[sq] = str(gram.terminals[sq[0][2:]].pattern.value).lower()
            if len(kw_of) != len(seqs):
                disp = None

        def active(node):
            if not disp:
                return seqs
            allk = set(kw_of.values())
            act = set(allk)
            prev = node
            for q in parents(node):
                if isinstance(q, ast.If):
                    ks = dispatch_test(q.test, disp)
                    if ks is not None:
                        in_body = any(any(x is prev for x in ast.walk(b)) for b in q.body)
                        in_test = any(x is prev for x in ast.walk(q.test))
                        if in_body:
                            act &= ks
                        elif not in_test:
                            act -= ks
                prev = q
                if q is fdef:
                    break
            return {sq for sq in seqs if kw_of[sq] in act}

        # arity
        for k, node, guarded in h.index_uses:
            need = k + 1 if k >= 0 else -k
            sq = active(node)
            if not sq:
                rep.ob(rid, f'{clsname}.{name}: args[{k}] in an arm no grammar alternative reaches', True)
                continue
            mn = min(len(x) for x in sq)
            ok = guarded or need <= mn
            rep.ob(rid, f'{clsname}.{name}: args[{k}] with >= {mn} children', ok)
            if not ok:
                short = sorted(x for x in sq if len(x) < need)[:2]
                rep.violate(rid, mod, fdef, node, f'{clsname}.{name} reads args[{k}] but the grammar can invoke it with only {mn} kept children (e.g. {short}): IndexError', node=node)
        for u in h.whole_uses:
            if isinstance(u, tuple) and u[0] == 'unpack':
                lens = {len(s) for s in seqs}
                ok = lens == {u[1]}
                rep.ob(rid, f'{clsname}.{name}: unpack of {u[1]} children', ok)
                if not ok:
                    rep.violate(rid, mod, fdef, u[2], f'{clsname}.{name} unpacks exactly {u[1]} children but the grammar yields {sorted(lens)}', node=u[2])
        # kind
        for k, node in h.value_uses:
            if k < 0:
                continue
            kinds = {s[k] for s in active(node) if -len(s) <= k < len(s)}
            bad = sorted(x for x in kinds if not x.startswith('T:') and not (x.startswith('R:') and gram.passthrough(x[2:]) and all(y.startswith('T:') for y in resolve_kinds(gram, x, methods))))
            ok = not bad
            rep.ob(rid, f'{clsname}.{name}: args[{k}].{node.attr} on {sorted(kinds)}', ok)
            if not ok:
                rep.violate(rid, mod, fdef, node, f'{clsname}.{name} reads `{norm(node)}` but child {k} can be {bad} (not a token): AttributeError', node=node)
        for k, node in h.tree_uses:
            if k < 0:
                continue
            kinds = {s[k] for s in active(node) if -len(s) <= k < len(s)}
            bad = sorted(x for x in kinds if x.startswith('T:') or (x.startswith('R:') and x[2:] in methods))
            ok = not bad
            rep.ob(rid, f'{clsname}.{name}: args[{k}].{node.attr} on {sorted(kinds)}', ok)
            if not ok:
                rep.violate(rid, mod, fdef, node, f'{clsname}.{name} reads `{norm(node)}` but child {k} can be {bad} (a token or an already transformed value, not a Tree)', node=node)
    # exhaustiveness
    for r in gram.user_rules():
        names = {alias or r for _, alias, _, _ in gram.alts[r]}
        for nm in names:
            has = nm in methods
            ok = has or nm in consumed_as_tree
            rep.ob(rid, f'rule {nm}: {"callback" if has else "consumed as Tree"}', ok)
            if not ok:
                rep.violate(rid, mod, cls, f'rule {nm}', f'grammar rule `{nm}` has no callback in {clsname} and is not on the list of rules deliberately consumed as Tree: its content is silently left untransformed', node=cls)
    return methods, handlers, n


def keyword_dispatch(fdef, argname):
    """Name of a local assigned `args[0].lower()` (handlers that dispatch on the leading keyword token)."""
    for st in walk_no_nested_funcs(fdef):
        if isinstance(st, ast.Assign) and isinstance(st.targets[0], ast.Name) and norm(st.value).replace(' ', '') == f'{argname}[0].lower()':
            return st.targets[0].id
    return None


def dispatch_test(test, var):
    """Set of keywords for which `test` is true: var == 'k' / var in ['a', 'b']; else None."""
    if isinstance(test, ast.Compare) and len(test.ops) == 1 and is_name(test.left, var):
        c = test.comparators[0]
        if isinstance(test.ops[0], ast.Eq) and isinstance(c, ast.Constant) and isinstance(c.value, str):
            return {c.value}
        if isinstance(test.ops[0], ast.In) and isinstance(c, (ast.List, ast.Tuple, ast.Set)) and all(isinstance(e, ast.Constant) for e in c.elts):
            return {e.value for e in c.elts}
    return None


def resolve_kinds(gram, kind, methods):
    """Kinds a child `R:rule` can actually be after ?-passthrough."""
    if kind.startswith('R:') and kind[2:] not in methods:
        pt = gram.passthrough(kind[2:])
        if pt:
            return pt
    return {kind}


# --------------------------------------------------------------------------- parser state discipline

def fresh_parser_rule(rep, rid, mod, transformer_cls):
    """Every parse() call must work on state created in that call: the transformer instance (which accumulates the
    result) is constructed inside parse() on the way to `.parse(text)`, unconditionally, and no function of the module
    keeps module-level state (`global`)."""
    rep.rule(rid, 'parse() constructs its transformer (the object that accumulates the result) inside the call, unconditionally; '
                  'no function of the parser module rebinds module-level state (no `global`): results of different calls share nothing')
    f = mod.func('parse')
    ctor = [c for c in find_all(f, ast.Call) if call_name(c) == transformer_cls]
    parse_calls = [c for c in find_all(f, ast.Call) if isinstance(c.func, ast.Attribute) and c.func.attr == 'parse']
    ok = len(ctor) >= 1 and len(parse_calls) == 1
    cond = False
    if ok:
        # the constructor call must not sit under a condition / loop inside parse, and must feed the Lark(...) whose .parse is returned
        for c in ctor:
            for p in parents(c):
                if isinstance(p, (ast.If, ast.IfExp, ast.For, ast.While, ast.Try, ast.BoolOp)):
                    cond = True
        recv = parse_calls[0].func.value
        reach = any(n is c for c in ctor for n in ast.walk(recv))
        if not reach and isinstance(recv, ast.Name):
            defs = [st for st in find_all(f, ast.Assign) if len(st.targets) == 1 and is_name(st.targets[0], recv.id)]
            reach = len(defs) == 1 and any(n is c for c in ctor for n in ast.walk(defs[0].value))
        ok = reach and not cond
    rep.ob(rid, f'{mod.name}.parse builds {transformer_cls}() per call', ok)
    if not ok:
        rep.violate(rid, mod, f, f'{transformer_cls}(...) in parse()', f'{mod.name}.parse must create a new {transformer_cls} for every call and parse with it '
                    f'(a transformer kept across calls hands the same, still growing result object to every caller)', node=f)
    gl = [n for fn in mod.funcs.values() for n in find_all(fn, (ast.Global, ast.Nonlocal))]
    rep.ob(rid, f'{mod.name}: no global/nonlocal statement', not gl)
    for g in gl:
        rep.violate(rid, mod, g, norm(g), f'{mod.name}: `{norm(g)}` keeps state across calls in a parser module', node=g)
    # mutable default arguments that are mutated are the same kind of hidden state
    for q, fn in mod.funcs.items():
        for d in fn.args.defaults + [x for x in fn.args.kw_defaults if x is not None]:
            if isinstance(d, (ast.List, ast.Dict, ast.Set)) or (isinstance(d, ast.Call) and call_name(d) in ('list', 'dict', 'set', 'defaultdict')):
                rep.violate(rid, mod, fn, norm(d), f'{mod.name}.{q}: mutable default argument {norm(d)} is shared by all calls', node=fn)
