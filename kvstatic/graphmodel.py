"""kyupy's own graph classes in Engine M, and a shadow model of what they are documented to do.

`classes(cmod)` turns Node, Line and Circuit of circuit.py into evaluated classes (minieval.make_class: constructing an object evaluates the
class's own __init__, calling a method evaluates that method). The two list subclasses are replaced by stand-ins with the documented behaviour
(GrowingList: item store beyond the end pads with None, free_index = first None or the length; IndexList: deleting position i moves the last
element there and gives it index i) - the real ones are decided by the rules C09.free / C09.swap.

`Shadow` is an independent model of the documented semantics of the edit operations; the rule C09.history applies the same operations to both and
compares the complete structure after every step."""
from __future__ import annotations

import ast

from .core import ModelError
from . import minieval
from .minieval import NS, NodeNS


class GrowingListSI(list):
    _kv_class = True

    def __setitem__(self, k, v):
        if isinstance(k, int) and k >= len(self):
            self.extend([None] * (k + 1 - len(self)))
        super().__setitem__(k, v)

    def free_index(self):
        for i, x in enumerate(self):
            if x is None:
                return i
        return len(self)


class IndexListSI(list):
    _kv_class = True

    def __delitem__(self, k):
        k = k.__index__()
        if k < 0 or k >= len(self):
            raise IndexError('list assignment index out of range')
        if k == len(self) - 1:
            super().__delitem__(k)
        else:
            last = self.pop()
            last.index = k
            super().__setitem__(k, last)


def classes(cmod, extra_env=None):
    """{'Circuit': cls, 'Node': cls, 'Line': cls, ...} evaluated from circuit.py"""
    genv = dict(extra_env or {})
    genv.update({'GrowingList': GrowingListSI, 'IndexList': IndexListSI})
    for st in cmod.tree.body:
        if isinstance(st, ast.ClassDef) and st.name in ('Node', 'Line', 'Circuit'):
            genv[st.name] = minieval.make_class(st, genv, base=NodeNS)
    for nm in ('Node', 'Line', 'Circuit'):
        if nm not in genv:
            raise ModelError(f'circuit.py: class {nm} not found')
    return genv


# ------------------------------------------------------------------------------------------------ shadow model

class Shadow:
    def __init__(self):
        self.nodes = []      # dicts: id, name, kind, ins, outs (lists of line ids / None)
        self.lines = []      # dicts: id, d, dp, r, rp   (node ids)
        self.forks = {}
        self.cells = {}
        self.nid = 0
        self.lid = 0

    def node(self, name, kind):
        tab = self.forks if kind == '__fork__' else self.cells
        if name in tab:
            raise AssertionError('duplicate name')
        n = dict(id=self.nid, name=name, kind=kind, ins=[], outs=[])
        self.nid += 1
        tab[name] = n
        self.nodes.append(n)
        return n

    @staticmethod
    def _free(lst):
        for i, x in enumerate(lst):
            if x is None:
                return i
        return len(lst)

    @staticmethod
    def _put(lst, k, v):
        if k >= len(lst):
            lst.extend([None] * (k + 1 - len(lst)))
        lst[k] = v

    def line(self, d, dp, r, rp):
        if dp is None:
            dp = self._free(d['outs'])
        if rp is None:
            rp = self._free(r['ins'])
        l = dict(id=self.lid, d=d, dp=dp, r=r, rp=rp)
        self.lid += 1
        self.lines.append(l)
        self._put(d['outs'], dp, l)
        self._put(r['ins'], rp, l)
        return l

    def remove_line(self, l):
        d, r = l['d'], l['r']
        if d is not None:
            d['outs'][l['dp']] = None
            if d['kind'] == '__fork__':
                del d['outs'][l['dp']]
                for i, x in enumerate(d['outs']):
                    x['dp'] = i
        if r is not None:
            r['ins'][l['rp']] = None
        k = self.lines.index(l)
        if k == len(self.lines) - 1:
            self.lines.pop()
        else:
            self.lines[k] = self.lines.pop()
        l['d'] = l['r'] = None

    def remove_node(self, n):
        k = self.nodes.index(n)
        if k == len(self.nodes) - 1:
            self.nodes.pop()
        else:
            self.nodes[k] = self.nodes.pop()
        del (self.forks if n['kind'] == '__fork__' else self.cells)[n['name']]

    def picture(self):
        return ([(n['name'], n['kind'], [None if l is None else l['id'] for l in n['ins']], [None if l is None else l['id'] for l in n['outs']]) for n in self.nodes],
                [(l['id'], l['d']['name'], l['dp'], l['r']['name'], l['rp']) for l in self.lines],
                sorted(self.forks), sorted(self.cells))


def picture(c, lid):
    """the same picture of an evaluated circuit object; lid: line object -> creation id"""
    def lk(l):
        return None if l is None else lid.get(id(l), '?')
    nodes = []
    for k, n in enumerate(c.nodes):
        if getattr(n, 'index', None) != k:
            return f'node {getattr(n, "name", "?")} at position {k} of circuit.nodes has index {getattr(n, "index", None)}'
        nodes.append((n.name, n.kind, [lk(l) for l in n.ins], [lk(l) for l in n.outs]))
    lines = []
    for k, l in enumerate(c.lines):
        if getattr(l, 'index', None) != k:
            return f'line at position {k} of circuit.lines has index {getattr(l, "index", None)}'
        lines.append((lk(l), getattr(l.driver, 'name', None), l.driver_pin, getattr(l.reader, 'name', None), l.reader_pin))
    for tab, kind in ((c.forks, True), (c.cells, False)):
        for name, n in tab.items():
            if n.name != name or (n.kind == '__fork__') != kind or not any(x is n for x in c.nodes):
                return f'name table entry {name!r} does not point at a node of that name and kind in circuit.nodes'
    return (nodes, lines, sorted(c.forks), sorted(c.cells))
