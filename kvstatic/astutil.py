"""Small ast helpers shared by the checks (anchoring by name and role, never by line)."""
from __future__ import annotations

import ast
import copy

from .core import AnchorError, ModelError, norm


def walk_no_nested_funcs(node):
    """Pre-order (source order) walk that does not descend into nested function/class definitions."""
    for n in ast.iter_child_nodes(node):
        yield n
        if isinstance(n, (ast.FunctionDef, ast.AsyncFunctionDef, ast.ClassDef, ast.Lambda)):
            continue
        yield from walk_no_nested_funcs(n)


def body_no_doc(fdef):
    body = list(fdef.body)
    if body and isinstance(body[0], ast.Expr) and isinstance(body[0].value, ast.Constant) and isinstance(body[0].value.value, str):
        body = body[1:]
    return body


def find_all(node, typ, pred=None, nested=True):
    it = ast.walk(node) if nested else walk_no_nested_funcs(node)
    out = [n for n in it if isinstance(n, typ) and (pred is None or pred(n))]
    out.sort(key=lambda n: (getattr(n, 'lineno', 0), getattr(n, 'col_offset', 0)))
    return out


def is_name(node, name=None):
    return isinstance(node, ast.Name) and (name is None or node.id == name)


def attr_chain(node):
    """'self.circuit.lines' for nested Attribute/Name, else None."""
    parts = []
    while isinstance(node, ast.Attribute):
        parts.append(node.attr)
        node = node.value
    if isinstance(node, ast.Name):
        parts.append(node.id)
        return '.'.join(reversed(parts))
    return None


def call_name(call):
    return attr_chain(call.func) if isinstance(call, ast.Call) else None


def target_names(t):
    if isinstance(t, ast.Name):
        return [t.id]
    if isinstance(t, (ast.Tuple, ast.List)):
        out = []
        for e in t.elts:
            out += target_names(e)
        return out
    if isinstance(t, ast.Starred):
        return target_names(t.value)
    return []


def parents(node):
    p = getattr(node, '_parent', None)
    while p is not None:
        yield p
        p = getattr(p, '_parent', None)


def enclosing(node, typ):
    for p in parents(node):
        if isinstance(p, typ):
            return p
    return None


def stmt_of(node):
    """The statement a node belongs to."""
    n = node
    while n is not None and not isinstance(n, ast.stmt):
        n = getattr(n, '_parent', None)
    return n


class Renamer(ast.NodeTransformer):
    def __init__(self, names=None, attrs=None, consts=None):
        self.names = names or {}
        self.attrs = attrs or {}
        self.consts = consts or {}

    def visit_Name(self, node):
        if node.id in self.names:
            return ast.copy_location(ast.Name(id=self.names[node.id], ctx=node.ctx), node)
        return node

    def visit_Attribute(self, node):
        self.generic_visit(node)
        if node.attr in self.attrs:
            node.attr = self.attrs[node.attr]
        return node

    def visit_Constant(self, node):
        try:
            if node.value in self.consts and type(node.value) is type(next(k for k in self.consts if k == node.value)):
                return ast.copy_location(ast.Constant(self.consts[node.value]), node)
        except (TypeError, StopIteration):
            pass
        return node

    def visit_arg(self, node):
        if node.arg in self.names:
            node.arg = self.names[node.arg]
        return node


def renamed(node, names=None, attrs=None, consts=None):
    """Normalised text of a deep copy of ``node`` with identifiers/attributes/constants renamed."""
    if isinstance(node, list):
        return [renamed(n, names, attrs, consts) for n in node]
    c = copy.deepcopy(node)
    c = Renamer(names, attrs, consts).visit(c)
    ast.fix_missing_locations(c)
    return norm(c)


# --------------------------------------------------------------------------- if/elif chains

def flatten_if_chain(ifnode):
    """[(test, body), ...], else_body for an if/elif/.../else chain."""
    arms = []
    cur = ifnode
    while True:
        arms.append((cur.test, cur.body))
        if len(cur.orelse) == 1 and isinstance(cur.orelse[0], ast.If):
            cur = cur.orelse[0]
        else:
            return arms, cur.orelse


def eq_key(test, var):
    """If test is `var == X` (or `X == var`) return the expression X, else None."""
    if isinstance(test, ast.Compare) and len(test.ops) == 1 and isinstance(test.ops[0], ast.Eq):
        a, b = test.left, test.comparators[0]
        if is_name(a, var):
            return b
        if is_name(b, var):
            return a
    return None


def _op_test(test, var):
    """A test built only from `var == K`, `var in (K, ..)`, `and`, `or` over named constants K: returns the set of constant
    names mentioned (positive tests only), else None."""
    if isinstance(test, ast.BoolOp):
        out = set()
        for v in test.values:
            r = _op_test(v, var)
            if r is None:
                return None
            out |= r
        return out
    k = eq_key(test, var)
    if k is not None:
        c = attr_chain(k)
        return {c} if c else None
    if (isinstance(test, ast.Compare) and len(test.ops) == 1 and isinstance(test.ops[0], ast.In) and is_name(test.left, var)
            and isinstance(test.comparators[0], (ast.Tuple, ast.List, ast.Set))):
        cs = [attr_chain(e) for e in test.comparators[0].elts]
        return set(cs) if cs and all(cs) else None
    return None


def _op_holds(test, var, const):
    """Truth of a test accepted by _op_test when var holds the named constant `const` (distinct names = distinct opcodes)."""
    if isinstance(test, ast.BoolOp):
        vals = [_op_holds(v, var, const) for v in test.values]
        return all(vals) if isinstance(test.op, ast.And) else any(vals)
    k = eq_key(test, var)
    if k is not None:
        return attr_chain(k) == const
    return const in [attr_chain(e) for e in test.comparators[0].elts]


def _specialise_chain(raw_arms, var):
    """Partial evaluation of an if/elif chain on the opcode variable for every opcode it names: arms testing several opcodes
    (`op == A or op == B`, `op in (A, B)`) and statements inside an arm that test the opcode again (`if op == B: <invert>`)
    are resolved per opcode. Returns [(synthetic `var == K` test, specialised body)] in order of first mention, or None when
    some test is not a positive combination of opcode comparisons (the caller then reports the offending arm)."""
    order = []
    for t, b in raw_arms:
        names = _op_test(t, var)
        if names is None:
            return None
        for e in ast.walk(t):
            c = attr_chain(e) if isinstance(e, ast.Attribute) else None
            if c in names and c not in order:
                order.append(c)
        for c in sorted(names):
            if c not in order:
                order.append(c)

    def spec(body, const):
        out = []
        for st in body:
            if isinstance(st, ast.If) and _op_test(st.test, var) is not None:
                out += spec(st.body if _op_holds(st.test, var, const) else st.orelse, const)
            else:
                out.append(st)
        return out or [ast.Pass()]

    res = []
    for const in order:
        for t, b in raw_arms:
            if _op_holds(t, var, const):
                parts = const.split('.')
                k = ast.Name(id=parts[0], ctx=ast.Load())
                for a in parts[1:]:
                    k = ast.Attribute(value=k, attr=a, ctx=ast.Load())
                test = ast.Compare(left=ast.Name(id=var, ctx=ast.Load()), ops=[ast.Eq()], comparators=[k])
                ast.copy_location(test, t)
                for n in ast.walk(test):
                    ast.copy_location(n, t)
                if hasattr(t, '_parent'):
                    test._parent = t._parent
                res.append((test, spec(b, const)))
                break
    return res


class Dispatch:
    """An `for op, o0, i0, i1, i2, i3 in <ops>[:, :6]` loop with its if/elif chain on `op`."""
    def __init__(self, loop, opvar, outvar, invars, rebinding, chain_if, tail, arms, orelse):
        self.loop = loop
        self.opvar = opvar
        self.outvar = outvar
        self.invars = invars
        self.rebinding = rebinding  # the statement mapping indices through c_locs (or None)
        self.chain_if = chain_if
        self.tail = tail            # statements after the chain inside the loop body
        self.arms = arms            # list of (const_name, test_node, body)
        self.orelse = orelse


def find_dispatch_loops(scope):
    """All dispatch loops directly inside ``scope`` (a FunctionDef or statement list holder)."""
    out = []
    for loop in find_all(scope, ast.For, nested=False):
        target, it = loop.target, loop.iter
        if isinstance(it, ast.Call) and isinstance(it.func, ast.Name) and it.func.id == 'zip' and it.args and not it.keywords \
                and isinstance(target, ast.Tuple) and len(target.elts) == len(it.args) and isinstance(target.elts[0], ast.Tuple):
            target, it = target.elts[0], it.args[0]      # for (op, o0, i0, ...), extra in zip(<ops>[:, :6], <a per-op table>): the op columns are the first component
        names = target_names(target)
        if len(names) != 6 or not isinstance(target, ast.Tuple):
            continue
        if not (isinstance(it, ast.Subscript) and (attr_chain(it.value) or '').split('.')[-1] == 'ops'):
            # another spelling of the op rows (a helper method / generator over the level table): accepted as a dispatch loop when the body is a chain on
            # the first target name; which rows it visits is then *evaluated* (kvstatic/opsiter.py) by the rules that consume the loop
            if not (isinstance(it, ast.Call) and any(isinstance(st, ast.If) and eq_key(st.test, names[0]) is not None for st in loop.body)):
                continue
        opvar, outvar, invars = names[0], names[1], names[2:]
        body = list(loop.body)
        rebinding = None
        chain_if = None
        tail = []
        for st in body:
            if chain_if is None and isinstance(st, ast.If) and eq_key(st.test, opvar) is not None:
                chain_if = st
            elif chain_if is None:
                if rebinding is None and isinstance(st, ast.Assign):
                    rebinding = st
                else:
                    raise ModelError(f'dispatch loop line {loop.lineno}: unexpected statement before chain: {norm(st)[:80]}')
            else:
                tail.append(st)
        if chain_if is None:
            continue
        raw_arms, orelse = flatten_if_chain(chain_if)
        if any(eq_key(t, opvar) is None for t, _ in raw_arms) or any(_op_test(s.test, opvar) is not None for _, b in raw_arms for s in b if isinstance(s, ast.If)):
            sp = _specialise_chain(raw_arms, opvar)
            if sp is not None:
                raw_arms = sp
        arms = []
        for test, b in raw_arms:
            k = eq_key(test, opvar)
            if k is None:
                from .core import DefiniteShapeError, qualname_of
                raise DefiniteShapeError('exhaust', '', qualname_of(test) if hasattr(test, '_parent') else '?', norm(test),
                                         f'dispatch chain: the arm test `{norm(test)}` is not `{opvar} == <one opcode>`: an arm that matches any other condition '
                                         f'is taken for opcodes it does not implement (and shadows the arms after it)', getattr(test, 'lineno', 0))
            cname = attr_chain(k)
            if cname is None:
                raise ModelError(f'dispatch chain line {test.lineno}: key is not a named constant: {norm(k)}')
            arms.append((cname.split('.')[-1], test, b))
        out.append(Dispatch(loop, opvar, outvar, invars, rebinding, chain_if, tail, arms, orelse))
        out[-1].ops_iter = it        # the expression the op rows come from (first component of a zip)
    return out


def check_rebinding(d: Dispatch):
    """The statement `o0, i0, .. = [c_locs[x] for x in (o0, i0, ..)]` maps every index variable through
    c_locs in the same order. Returns the name of the location table or raises ModelError."""
    st = d.rebinding
    if st is None:
        raise ModelError(f'dispatch loop line {d.loop.lineno}: no c_locs rebinding found')
    tn = target_names(st.targets[0])
    v = st.value
    if isinstance(v, ast.ListComp) and len(v.generators) == 1:
        g = v.generators[0]
        src = target_names(g.iter) if isinstance(g.iter, (ast.Tuple, ast.List)) else None
        elt = v.elt
        if (src is not None and isinstance(elt, ast.Subscript) and is_name(elt.slice, target_names(g.target)[0] if target_names(g.target) else None)):
            table = attr_chain(elt.value)
            return tn, src, table
    if isinstance(v, (ast.Tuple, ast.List)):
        src, table = [], None
        for e in v.elts:
            if not (isinstance(e, ast.Subscript) and isinstance(e.slice, ast.Name)):
                raise ModelError(f'unrecognised rebinding {norm(st)[:100]}')
            src.append(e.slice.id)
            t = attr_chain(e.value)
            if table not in (None, t):
                raise ModelError(f'rebinding uses two tables {norm(st)[:100]}')
            table = t
        return tn, src, table
    raise ModelError(f'unrecognised rebinding idiom: {norm(st)[:100]}')


def resolve_locs(d: Dispatch):
    """After the c_locs rebinding: which local name holds the memory location of op column k.
    Sets d.loc_out (column 1) and d.loc_ins (columns 2..5). Returns True iff every column is mapped
    exactly once through a table called c_locs."""
    tn, src, table = check_rebinding(d)
    cols = {name: i for i, name in enumerate([d.opvar, d.outvar] + d.invars)}
    m = {}
    ok = len(tn) == len(src) == 5 and table is not None and table.split('.')[-1] == 'c_locs'
    for t, s in zip(tn, src):
        if s not in cols or cols[s] in m:
            ok = False
            continue
        m[cols[s]] = t
    ok = ok and sorted(m) == [1, 2, 3, 4, 5] and len(set(m.values())) == 5
    d.loc_out = m.get(1, d.outvar)
    d.loc_ins = [m.get(k, d.invars[k - 2]) for k in (2, 3, 4, 5)]
    d.loc_table = table
    return ok


# --------------------------------------------------------------------------- template comparison with slot diagnosis

_LEAF_FIELDS = {ast.Name: ('id',), ast.Attribute: ('attr',), ast.Constant: ('value',), ast.arg: ('arg',), ast.keyword: ('arg',)}


def tree_diff(a, b, path=''):
    """Compare two ASTs. Returns ('same', []), ('leaf', [(path, a_leaf, b_leaf), ...]) when only identifiers /
    constants / operators of the same kind differ, or ('shape', [where]) when the structure differs."""
    if type(a) is not type(b):
        # operators of the same family are leaf differences
        for fam in ((ast.Add, ast.Sub, ast.Mult, ast.FloorDiv, ast.BitAnd, ast.BitOr, ast.BitXor, ast.LShift, ast.RShift),
                    (ast.Eq, ast.NotEq, ast.Lt, ast.LtE, ast.Gt, ast.GtE, ast.Is, ast.IsNot, ast.In, ast.NotIn), (ast.And, ast.Or), (ast.Invert, ast.Not, ast.USub, ast.UAdd)):
            if isinstance(a, fam) and isinstance(b, fam):
                return 'leaf', [(path, type(a).__name__, type(b).__name__)]
        return 'shape', [f'{path}: {type(a).__name__} vs {type(b).__name__}']
    if isinstance(a, ast.AST):
        diffs = []
        kind = 'same'
        for f in a._fields:
            if f in ('ctx', 'type_comment', 'kind', 'lineno'):
                continue
            va, vb = getattr(a, f, None), getattr(b, f, None)
            if f in _LEAF_FIELDS.get(type(a), ()):
                if va != vb or type(va) is not type(vb):
                    diffs.append((f'{path}.{f}', va, vb))
                    kind = 'leaf' if kind != 'shape' else kind
                continue
            k, d = tree_diff(va, vb, f'{path}.{f}')
            if k == 'shape':
                return 'shape', d
            if k == 'leaf':
                kind = 'leaf'
                diffs += d
        return kind, diffs
    if isinstance(a, list):
        if len(a) != len(b):
            return 'shape', [f'{path}: {len(a)} vs {len(b)} elements']
        kind, diffs = 'same', []
        for i, (x, y) in enumerate(zip(a, b)):
            k, d = tree_diff(x, y, f'{path}[{i}]')
            if k == 'shape':
                return 'shape', d
            if k == 'leaf':
                kind = 'leaf'
                diffs += d
        return kind, diffs
    if a != b:
        return 'leaf', [(path, a, b)]
    return 'same', []


def parse_snippet(src, mode='exec'):
    import textwrap
    t = ast.parse(textwrap.dedent(src), mode='eval' if mode == 'eval' else 'exec')
    return t.body if mode == 'eval' else t.body[0]


def expect_value(actual_expr, template_src):
    """('same'|'leaf'|'shape', human readable differences) of an expression against a template source."""
    k, d = tree_diff(actual_expr, parse_snippet(template_src, 'eval'))
    if k == 'leaf':
        d = [f'{p}: found {x!r}, required {y!r}' for p, x, y in d]
    return k, d
