"""Engine L (loader/resolver) and F (findings ledger), report and evidence writer."""
from __future__ import annotations

import ast
import hashlib
import json
import os
import sys
import time

VERIF = os.path.dirname(os.path.dirname(os.path.abspath(__file__)))
DEFAULT_ROOT = '/repo/src/kyupy'


class AnalysisError(Exception):
    """Anchor vanished, construct outside the modelled subset, instance floor missed.

    Leads to exit code 2 (never a VIOLATION line, never a silent pass)."""


class AnchorError(AnalysisError):
    pass


class ModelError(AnalysisError):
    pass


class DefiniteShapeError(AnalysisError):
    """A construct that is not merely outside the modelled subset but wrong whatever the rest of the code does (e.g. an arm of an
    opcode dispatch chain whose test is not an equality with one opcode). The entry point turns it into a violation of rule
    <PROP>.<rule> instead of an analysis error."""
    def __init__(self, rule, modname, qual, construct, message, lineno=0):
        super().__init__(message)
        self.rule, self.modname, self.qual, self.construct, self.message, self.lineno = rule, modname, qual, construct, message, lineno


# --------------------------------------------------------------------------- loader

class Module:
    def __init__(self, name, path):
        self.name = name
        self.path = path
        with open(path, 'rb') as f:
            raw = f.read()
        self.digest = hashlib.sha256(raw).hexdigest()
        self.src = raw.decode('utf-8')
        try:
            self.tree = ast.parse(self.src, filename=path)
        except SyntaxError as e:  # a tree that does not compile is outside "still compiles"
            raise AnalysisError(f'{path}: does not parse: {e}')
        for parent in ast.walk(self.tree):
            for child in ast.iter_child_nodes(parent):
                child._parent = parent
        self._index()

    def _index(self):
        self.funcs = {}    # qualname -> FunctionDef
        self.classes = {}  # name -> ClassDef
        self.assigns = {}  # module-level name -> list of value exprs / statements

        def visit(body, prefix):
            for st in body:
                if isinstance(st, (ast.FunctionDef, ast.AsyncFunctionDef)):
                    q = prefix + st.name
                    self.funcs.setdefault(q, st)
                    st._qualname = q
                    visit(st.body, q + '.')
                elif isinstance(st, ast.ClassDef):
                    q = prefix + st.name
                    self.classes[q] = st
                    st._qualname = q
                    visit(st.body, q + '.')
        visit(self.tree.body, '')
        for st in self.tree.body:
            if isinstance(st, ast.Assign):
                for t in st.targets:
                    for n in ast.walk(t):
                        if isinstance(n, ast.Name):
                            self.assigns.setdefault(n.id, []).append(st)
            elif isinstance(st, ast.AnnAssign) and isinstance(st.target, ast.Name):
                self.assigns.setdefault(st.target.id, []).append(st)

    def func(self, qualname) -> ast.FunctionDef:
        if qualname not in self.funcs:
            raise AnchorError(f'anchor vanished: function {self.name}.{qualname}')
        return self.funcs[qualname]

    def cls(self, name) -> ast.ClassDef:
        if name not in self.classes:
            raise AnchorError(f'anchor vanished: class {self.name}.{name}')
        return self.classes[name]

    def loc(self, node):
        return f'{self.path}:{getattr(node, "lineno", 0)}'


class Repo:
    MODULES = ['__init__', 'bench', 'circuit', 'def_file', 'logic', 'logic_sim', 'sdf',
               'sim', 'stil', 'techlib', 'verilog', 'wave_sim']

    def __init__(self, root=None):
        self.root = root or os.environ.get('KV_ROOT') or DEFAULT_ROOT
        if not os.path.isdir(self.root):
            raise AnchorError(f'source root {self.root} not found')
        self.mods = {}
        self.equiv = {}
        self.equiv_full = {}
        self.consulted = set()
        present = sorted(f[:-3] for f in os.listdir(self.root) if f.endswith('.py'))
        self.present = present

    def mod(self, name) -> Module:
        if name not in self.mods:
            path = os.path.join(self.root, name + '.py')
            if not os.path.isfile(path):
                raise AnchorError(f'anchor vanished: module {name} ({path})')
            self.mods[name] = Module(name, path)
            self._absorb(name)
        self.consulted.add(name)
        return self.mods[name]

    def _absorb(self, name):
        """Equivalence modulo refactoring: see kvstatic/equiv.py. Functions whose normal form equals the reference
        function's normal form are analysed in reference form (KV_NO_EQUIV=1 switches this off)."""
        if os.environ.get('KV_NO_EQUIV'):
            return
        from .equiv import REFERENCE_ROOT, absorb
        rp = os.path.join(REFERENCE_ROOT, name + '.py')
        m = self.mods[name]
        if not os.path.isfile(rp) or os.path.abspath(rp) == os.path.abspath(m.path):
            return
        ref = Module(name, rp)
        if ref.digest == m.digest:
            return
        res = absorb(m, ref)
        self.equiv_full[name] = res
        if res['equivalent'] or res['absorbed_helpers'] or res['directed']:
            self.equiv[name] = {k: res[k] for k in ('equivalent', 'directed', 'absorbed_helpers')}

    def all_mods(self):
        return [self.mod(n) for n in self.present]

    def digests(self):
        return {n: self.mods[n].digest[:16] for n in sorted(self.consulted)}


# --------------------------------------------------------------------------- ast helpers

def qualname_of(node):
    """Qualified name of the function/class enclosing ``node`` (module level: '<module>')."""
    p = node
    while p is not None:
        if isinstance(p, (ast.FunctionDef, ast.AsyncFunctionDef, ast.ClassDef)) and hasattr(p, '_qualname'):
            if p is not node or True:
                return p._qualname
        p = getattr(p, '_parent', None)
    return '<module>'


def norm(node):
    """Normalised statement/expression text: ast.unparse removes layout, comments, parens."""
    if isinstance(node, str):
        return node
    try:
        return ast.unparse(node)
    except Exception:  # pragma: no cover
        return ast.dump(node)


def short(s, n=160):
    s = ' '.join(str(s).split())
    return s if len(s) <= n else s[:n - 3] + '...'


# --------------------------------------------------------------------------- findings ledger

class Ledger:
    def __init__(self, path=None):
        self.path = path or os.path.join(VERIF, 'known_findings.json')
        self.known = []
        self.fixed = []
        if os.path.isfile(self.path):
            with open(self.path) as f:
                d = json.load(f)
            self.known = d.get('known', [])
            self.fixed = d.get('fixed', [])

    def match(self, prop, key):
        for k in self.known:
            if k['property'] == prop and k['key'] == key:
                return k
        return None


# --------------------------------------------------------------------------- report

class Violation:
    def __init__(self, rule, module, qualname, construct, message, loc=None, witness=None):
        self.rule = rule
        self.module = module
        self.qualname = qualname
        self.construct = short(construct, 300)
        self.message = message
        self.loc = loc
        self.witness = witness

    @property
    def key(self):
        return f'{self.rule}|{self.module}|{self.qualname}|{self.construct}'

    def as_dict(self):
        return {'rule': self.rule, 'module': self.module, 'function': self.qualname,
                'construct': self.construct, 'message': self.message, 'loc': self.loc,
                'witness': self.witness, 'key': self.key}


class Report:
    def __init__(self, prop, tier, repo: Repo, seed=0):
        self.prop = prop
        self.tier = tier
        self.repo = repo
        self.seed = seed
        self.t0 = time.time()
        self.obligations = 0
        self.discharged = 0
        self.evaluations = 0
        self.instances = set()     # distinct rule instances that matched real code
        self.rules = {}            # rule id -> [description, n_obligations, n_ok]
        self.samples = []
        self.violations = []
        self.analysed = []         # free-form "what was analysed" lines
        self.assumptions = []
        self.trusted = []
        self.explanation = ''
        self.exhaustive = False
        self.extra = {}
        self.floors = []           # (name, measured, floor)

    # -- recording
    def rule(self, rid, text):
        self.rules.setdefault(rid, [text, 0, 0])

    def ob(self, rid, instance, ok, evals=1, sample=None):
        """One obligation of rule ``rid`` about ``instance`` (a construct description)."""
        if rid not in self.rules:
            self.rules[rid] = ['', 0, 0]
        self.obligations += 1
        self.rules[rid][1] += 1
        self.evaluations += evals
        self.instances.add((rid, short(instance, 200)))
        if ok:
            self.discharged += 1
            self.rules[rid][2] += 1
        if sample is not None and len(self.samples) < 40:
            self.samples.append(sample)

    def violate(self, rid, mod, node_or_qual, construct, message, witness=None, node=None):
        """Record a violation. ``mod`` is a Module (or name), ``node_or_qual`` an ast node inside the
        offending function or a qualname string."""
        modname = mod.name if isinstance(mod, Module) else str(mod)
        if isinstance(node_or_qual, str):
            qual = node_or_qual
            n = node
        else:
            qual = qualname_of(node_or_qual)
            n = node_or_qual if node is None else node
        loc = mod.loc(n) if (isinstance(mod, Module) and n is not None) else None
        v = Violation(rid, modname, qual, norm(construct), message, loc, witness)
        for o in self.violations:
            if o.key == v.key:
                return o
        self.violations.append(v)
        return v

    def violate_raw(self, rid, modname, qual, construct, message, line, witness):
        """a violation recorded earlier for the same inputs (cached_rules): the location is rebuilt for the tree analysed now"""
        loc = None
        if line is not None and modname in self.repo.mods:
            loc = f'{self.repo.mods[modname].path}:{line}'
        v = Violation(rid, modname, qual, construct, message, loc, witness)
        for o in self.violations:
            if o.key == v.key:
                return o
        self.violations.append(v)
        return v

    def floor(self, name, measured, floor):
        """Instance floors are enforced in finish(): a missed floor with no violation reported is an
        ANALYSIS-ERROR (the rule would pass vacuously); when violations were found they explain the
        missing instances and are reported instead."""
        self.floors.append((name, measured, floor))

    def note(self, line):
        self.analysed.append(line)
        if 'outside the evaluat' in line:
            self.fallbacks = getattr(self, 'fallbacks', []) + [line]

    # -- finish
    def finish(self, ledger: Ledger):
        wall = time.time() - self.t0
        if getattr(self, 'fallbacks', None) and not self.repo.equiv_full and not os.environ.get('KV_NO_EQUIV'):
            # every module is byte-identical to the confirmed reference, on which each evaluated rule is known to succeed: a fall-back to the
            # structural form here is a regression of the evaluator, not a property of the code
            raise AnalysisError(f'an evaluated rule fell back on the confirmed reference tree (evaluator regression): {self.fallbacks[0]}')
        missed = [(n, m, f) for n, m, f in self.floors if m < f]
        if missed and not self.violations:
            n, m, f = missed[0]
            raise AnalysisError(f'instance floor missed: {n}: analysed {m} < {f} (rule would pass vacuously)')
        unlisted, listed = [], []
        for v in self.violations:
            k = ledger.match(self.prop, v.key)
            (listed if k else unlisted).append((v, k))
        out = []
        out.append(f'[{self.prop}] tier={self.tier} root={self.repo.root}')
        for rid, (text, n, ok) in self.rules.items():
            out.append(f'  rule {rid}: {ok}/{n} obligations hold - {text}')
        for name, m, fl in self.floors:
            out.append(f'  floor {name}: {m} (>= {fl})')
        for line in self.analysed[:60]:
            out.append('  ' + line)
        for v, k in listed:
            out.append(f'KNOWN-FINDING: property={self.prop} {k.get("what", v.message)} [{v.rule} {v.module}.{v.qualname}]')
        replay_dir = os.environ.get('KV_REPLAY_DIR') or os.path.join(VERIF, 'replay')
        for i, (v, _) in enumerate(unlisted):
            os.makedirs(replay_dir, exist_ok=True)
            path = os.path.join(replay_dir, f'{self.prop}-{i}.json')
            with open(path, 'w') as f:
                json.dump({'property': self.prop, 'root': self.repo.root, **v.as_dict()}, f, indent=1, default=str)
            out.append(f'  {v.loc or v.module}: [{v.rule}] {v.module}.{v.qualname}: {v.message}')
            out.append(f'      construct: {v.construct}')
            if v.witness is not None:
                out.append(f'      witness: {short(v.witness, 400)}')
            out.append(f'VIOLATION property={self.prop} replay={path}')
        status = 1 if unlisted else 0
        for mname, e in sorted(self.repo.equiv.items()):
            out.append(f'  note: {mname}: analysed in reference form (equal normal forms): {", ".join(e["equivalent"]) or "-"}; '
                       f'normalised towards the reference: {", ".join(e["directed"]) or "-"}'
                       + (f'; helpers absorbed: {", ".join(e["absorbed_helpers"])}' if e['absorbed_helpers'] else ''))
        out.append(f'[{self.prop}] obligations={self.obligations} discharged={self.discharged} '
                   f'instances={len(self.instances)} violations={len(unlisted)} known={len(listed)} '
                   f'wall={wall:.2f}s -> exit {status}')
        print('\n'.join(out))
        self.write_evidence(wall, len(unlisted), [v.as_dict() for v, _ in listed])
        return status

    def write_evidence(self, wall, nviol, known):
        ev = {
            'property_id': self.prop,
            'tier': self.tier,
            'seed': int(self.seed),
            'level': 'other',
            'coverage': {
                'explanation': self.explanation or 'static rules over the source tree; see rules',
                'rule': 'one evaluation = one rule instance examined or one truth-table row compared; '
                        'distinct_nontrivial = distinct (rule, construct) instances that matched real code',
                'obligations': self.obligations,
                'discharged': self.discharged,
                'evaluations': max(1, self.evaluations),
                'distinct_nontrivial': len(self.instances),
                'samples': self.samples[:25] or ['(none)'],
                'exhaustive': bool(self.exhaustive),
                'rules': {rid: {'text': t, 'obligations': n, 'hold': ok} for rid, (t, n, ok) in self.rules.items()},
                'floors': [{'name': n, 'measured': m, 'floor': f} for n, m, f in self.floors],
                'analysed': self.analysed[:200],
                'source_root': self.repo.root,
                'source_digests': self.repo.digests(),
                'equivalent_modulo_normal_form': self.repo.equiv,
                'trusted_base': self.trusted,
                'known_findings_reported': known,
                **self.extra,
            },
            'assumptions': self.assumptions,
            'wall_s': round(wall, 3),
            'violations': nviol,
        }
        d = os.path.join(VERIF, 'evidence')
        os.makedirs(d, exist_ok=True)
        # evidence is only (re)written for runs against the registered root, or when asked for
        if self.repo.root == DEFAULT_ROOT or os.environ.get('KV_WRITE_EVIDENCE'):
            with open(os.path.join(d, f'{self.prop}.json'), 'w') as f:
                json.dump(ev, f, indent=1, default=str)


# ------------------------------------------------------------------------------------------------ content-addressed cache of evaluated rule groups
# An evaluated rule group is a deterministic function of (the source text of the modules it reads, the reference snapshot used for normalisation, the checker's own
# source). Its outcome - the sequence of rule / obligation / violation / floor / note calls - is stored under the digest of exactly that and replayed on a hit. The
# cache is an optimisation only (regression runs analyse hundreds of variants of which most modules are unchanged): a missing or disabled cache changes nothing but time.

_SELF_DIGEST = None


def _self_digest():
    global _SELF_DIGEST
    if _SELF_DIGEST is None:
        h = hashlib.sha256()
        root = os.path.dirname(os.path.dirname(os.path.abspath(__file__)))
        for sub in ('kvstatic', 'checks', 'fixtures', os.path.join('reference', 'kyupy')):
            d = os.path.join(root, sub)
            for fn in sorted(os.listdir(d)) if os.path.isdir(d) else []:
                fp = os.path.join(d, fn)
                if os.path.isfile(fp) and not fn.endswith('.pyc'):
                    h.update(fn.encode())
                    h.update(open(fp, 'rb').read())
        _SELF_DIGEST = h.hexdigest()
    return _SELF_DIGEST


def cache_key(repo, name, modules, extra=''):
    h = hashlib.sha256()
    h.update(_self_digest().encode())
    h.update(name.encode())
    h.update(repr(extra).encode())
    h.update(('noequiv' if os.environ.get('KV_NO_EQUIV') else 'equiv').encode())
    for m in modules:
        h.update(m.encode())
        h.update(repo.mod(m).digest.encode() if isinstance(repo.mod(m).digest, str) else repr(repo.mod(m).digest).encode())
    return h.hexdigest()


def cache_get(key):
    if os.environ.get('KV_NO_CACHE'):
        return None
    import pickle
    fp = os.path.join(os.environ.get('KV_CACHE_DIR', '/tmp/kvstatic-cache'), key[:2], key)
    try:
        with open(fp, 'rb') as f:
            return pickle.load(f)
    except Exception:  # noqa: BLE001 - no entry / unreadable entry: recompute
        return None


def cache_put(key, value):
    if os.environ.get('KV_NO_CACHE'):
        return
    import pickle
    d = os.path.join(os.environ.get('KV_CACHE_DIR', '/tmp/kvstatic-cache'), key[:2])
    try:
        os.makedirs(d, exist_ok=True)
        tmp = os.path.join(d, f'.{key}.{os.getpid()}')
        with open(tmp, 'wb') as f:
            pickle.dump(value, f)
        os.replace(tmp, os.path.join(d, key))
    except Exception:  # noqa: BLE001
        pass


class _Recorder:
    """stands in for a Report while a rule group runs: forwards everything to the real report and records the calls in a replayable form"""
    def __init__(self, rep):
        object.__setattr__(self, '_rep', rep)
        object.__setattr__(self, '_events', [])

    def __getattr__(self, name):
        return getattr(self._rep, name)

    def __setattr__(self, name, value):
        setattr(self._rep, name, value)
        if isinstance(value, (bool, int, str, tuple, type(None))):
            self._events.append(('set', name, value))

    def rule(self, rid, text):
        self._events.append(('rule', rid, text))
        return self._rep.rule(rid, text)

    def ob(self, rid, instance, ok, evals=1, sample=None):
        self._events.append(('ob', rid, short(instance, 200), bool(ok), evals, sample if _plain(sample) else None))
        return self._rep.ob(rid, instance, ok, evals=evals, sample=sample)

    def floor(self, name, measured, floor):
        self._events.append(('floor', name, measured, floor))
        return self._rep.floor(name, measured, floor)

    def note(self, line):
        self._events.append(('note', line))
        return self._rep.note(line)

    def violate(self, rid, mod, node_or_qual, construct, message, witness=None, node=None):
        v = self._rep.violate(rid, mod, node_or_qual, construct, message, witness=witness, node=node)
        line = None
        if v.loc and ':' in str(v.loc):
            try:
                line = int(str(v.loc).rsplit(':', 1)[1])
            except ValueError:
                line = None
        self._events.append(('violate', v.rule, v.module, v.qualname, v.construct, v.message, line, witness if _plain(witness) else None))
        return v


def _plain(x):
    try:
        json.dumps(x)
        return True
    except (TypeError, ValueError):
        return False


def cached_rules(rep, repo, name, modules, compute, extra=''):
    """compute(rep_like) -> picklable return value. Replays the recorded outcome when the same inputs were analysed before."""
    key = cache_key(repo, name, modules, extra)
    hit = cache_get(key)
    if hit is not None:
        events, ret = hit
        for e in events:
            k = e[0]
            if k == 'rule':
                rep.rule(e[1], e[2])
            elif k == 'ob':
                rep.ob(e[1], e[2], e[3], evals=e[4], sample=e[5])
            elif k == 'floor':
                rep.floor(e[1], e[2], e[3])
            elif k == 'note':
                rep.note(e[1])
            elif k == 'set':
                setattr(rep, e[1], e[2])
            elif k == 'violate':
                rep.violate_raw(*e[1:])
        return ret
    rec = _Recorder(rep)
    ret = compute(rec)          # a ModelError / AnalysisError propagates and nothing is stored
    cache_put(key, (rec._events, ret))
    return ret
