"""Tables extracted from sim.py / wave_sim.py that several checks share (engines K and T)."""
from __future__ import annotations

import ast

from .core import AnchorError, ModelError, Repo, norm
from .fold import fold_module, U16, Unknown
from .astutil import find_all, attr_chain, is_name, target_names, flatten_if_chain, walk_no_nested_funcs


def luts(repo: Repo):
    """name -> 16-bit table for every module-level np.uint16 constant of sim.py."""
    mod = repo.mod('sim')
    env, nodes = fold_module(mod)
    out = {k: int(v) for k, v in env.items() if isinstance(v, U16)}
    if not out:
        raise AnchorError('sim.py: no np.uint16 LUT constants found')
    return out, nodes


def kind_prefixes(repo: Repo):
    """Ordered [(prefix, (name4, name3, name2))] from the dict display sim.kind_prefixes."""
    mod = repo.mod('sim')
    if 'kind_prefixes' not in mod.assigns:
        raise AnchorError('anchor vanished: sim.kind_prefixes')
    st = mod.assigns['kind_prefixes'][-1]
    d = st.value
    if not isinstance(d, ast.Dict):
        raise ModelError('sim.kind_prefixes is not a dict display')
    rows = []
    for k, v in zip(d.keys, d.values):
        if not (isinstance(k, ast.Constant) and isinstance(k.value, str)):
            raise ModelError(f'kind_prefixes key {norm(k)} is not a string literal')
        if not (isinstance(v, ast.Tuple) and len(v.elts) == 3 and all(isinstance(e, ast.Name) for e in v.elts)):
            raise ModelError(f'kind_prefixes[{k.value!r}] is not a 3-tuple of constant names: {norm(v)}')
        rows.append((k.value, tuple(e.id for e in v.elts), k))
    return rows, st


def wave_operand_bits(repo: Repo):
    """From wave_sim._wave_eval: which op column feeds which operand arm and which bit of `inputs`
    that arm toggles. Returns {op_column: bit_weight}, e.g. {2: 1, 3: 2, 4: 4, 5: 8}, plus the
    column of the LUT and of the output. Read off the operand arms of the merge loop; when the loop has another shape, the
    weights are determined by evaluating the kernel (checks/kernel_eval.operand_weights): operand column k carries weight 2^j
    iff the projection table x_j makes the output start at the operand's initial value."""
    try:
        return _wave_operand_bits(repo)
    except ModelError as e:
        from checks import kernel_eval
        try:
            w = kernel_eval.operand_weights(repo)
        except ModelError:
            raise e
        return w, 0, 1, {}


def _wave_operand_bits(repo: Repo):
    mod = repo.mod('wave_sim')
    f = mod.func('_wave_eval')
    opname = f.args.args[0].arg
    col_of = {}      # local name -> op column
    for st in f.body:
        if isinstance(st, ast.Assign) and len(st.targets) == 1 and isinstance(st.targets[0], ast.Name):
            v = st.value
            if isinstance(v, ast.Subscript) and is_name(v.value, opname) and isinstance(v.slice, ast.Constant):
                col_of[st.targets[0].id] = v.slice.value
    loops = [n for n in f.body if isinstance(n, ast.While)]
    if len(loops) != 1:
        raise ModelError('_wave_eval: expected exactly one while loop')
    loop = loops[0]
    first = loop.body[0]
    if not isinstance(first, ast.If):
        raise ModelError('_wave_eval: loop does not start with the operand-arm chain')
    arms, orelse = flatten_if_chain(first)
    bodies = [b for _, b in arms] + [orelse]
    weights = {}
    for b in bodies:
        w = None
        letter = None
        for st in b:
            if isinstance(st, ast.AugAssign) and is_name(st.target, 'inputs') and isinstance(st.op, ast.BitXor) and isinstance(st.value, ast.Constant):
                w = st.value.value
            if isinstance(st, ast.AugAssign) and isinstance(st.target, ast.Name) and st.target.id.endswith('_cur') and st.target.id != 'z_cur':
                letter = st.target.id[:-4]
        if w is None or letter is None or f'{letter}_idx' not in col_of:
            raise ModelError('_wave_eval: operand arm does not advance one operand cursor and toggle one input bit')
        weights[col_of[f'{letter}_idx']] = w
    lut_col = col_of.get('lut')
    z_col = col_of.get('z_idx')
    return weights, lut_col, z_col, col_of


def var_tables(weights):
    """operand k (op column k+2) -> 16-bit table of rows where that operand is 1, under the LUT index
    convention derived from the timing kernel."""
    vt = {}
    for col, w in weights.items():
        t = 0
        for row in range(16):
            if row & w:
                t |= 1 << row
        vt[col - 2] = t
    return vt
