"""Thorough tier: checker self-validation (mutation slice), second evaluator for engine A, alias sweeps."""
from __future__ import annotations

import ast
import os
import random
import sys
from concurrent.futures import ThreadPoolExecutor

from .core import AnalysisError, ModelError, VERIF, DEFAULT_ROOT


def selftest_slice(rep, repo, prop):
    """Apply every mutant / neutral edit of selftest/mutants.py for `prop` to a scratch copy of the analysed tree
    (under $TMPDIR, outside /repo and /verif; removed afterwards) and require the expected verdict."""
    if rep.violations:
        rep.note('thorough: self-validation skipped because the analysed tree already violates the property')
        return
    sys.path.insert(0, os.path.join(VERIF, 'selftest'))
    import importlib
    run = importlib.import_module('run')
    mutants = importlib.import_module('mutants')
    run.SRC = repo.root
    ms = [m for m in mutants.MUTANTS if m['prop'] == prop]
    seed = rep.seed
    random.Random(seed).shuffle(ms)
    rep.rule('SELFTEST.mutant', 'checker sensitivity: each seeded break of this property is reported with the expected rule (on a scratch copy)')
    rep.rule('SELFTEST.neutral', 'checker specificity: each behaviour-preserving refactor leaves the check silent')
    bad = []
    stale = 0
    with ThreadPoolExecutor(min(16, os.cpu_count() or 4)) as ex:
        for m, status, out in ex.map(run.run_one, ms):
            rid = 'SELFTEST.neutral' if m.get('neutral') else 'SELFTEST.mutant'
            if status == 'STALE':
                stale += 1
                continue
            ok = status == 'OK'
            rep.ob(rid, m['id'], ok, sample={'rule': rid, 'id': m['id'], 'expected': m.get('rule'), 'status': status} if len(rep.samples) < 30 else None)
            if not ok:
                bad.append((m['id'], status))
    rep.extra['selftest'] = {'entries': len(ms), 'stale': stale, 'unexpected': bad}
    rep.note(f'thorough: self-validation {len(ms) - len(bad) - stale}/{len(ms)} as expected, {stale} stale')
    if bad:
        raise AnalysisError(f'checker self-validation failed for {prop}: {bad[:5]}')
    if repo.root == DEFAULT_ROOT and stale > len(ms) // 3:
        raise AnalysisError(f'checker self-validation: {stale} of {len(ms)} corpus entries no longer match the source (corpus is stale)')


# --------------------------------------------------------------------------- second evaluator (row by row)

class RowEval:
    """Independent, deliberately naive evaluator: executes an operator body for ONE operand combination with
    plain python ints. Arrays are lists of per-plane bits (bit-parallel) or a single int 0..255 in a 1-list (mv).
    Shares no code with kvstatic.tt."""
    def __init__(self, funcs, consts):
        self.funcs, self.consts = funcs, consts

    def run(self, fdef, args, mode):
        env = {}
        params = [a.arg for a in fdef.args.args]
        for p, v in zip(params, args):
            env[p] = v
        if fdef.args.vararg:
            env[fdef.args.vararg.arg] = tuple(args[len(params):])
        for st in fdef.body:
            r = self.st(st, env, mode)
            if r is not None:
                return r[0]
        return None

    def st(self, s, env, mode):
        if isinstance(s, ast.Expr):
            if not isinstance(s.value, ast.Constant):
                self.ev(s.value, env, mode)
            return None
        if isinstance(s, ast.Return):
            return (self.ev(s.value, env, mode) if s.value else None,)
        if isinstance(s, ast.For):
            for x in self.ev(s.iter, env, mode):
                env[s.target.id] = x
                for b in s.body:
                    r = self.st(b, env, mode)
                    if r is not None:
                        return r
            return None
        if isinstance(s, ast.Assign):
            v = self.ev(s.value, env, mode)
            self.assign(s.targets[0], v, env, mode)
            return None
        if isinstance(s, ast.AugAssign):
            cur = self.ev(s.target, env, mode)
            v = self.ev(s.value, env, mode)
            self.assign(s.target, self.op(s.op, cur, v, mode), env, mode)
            return None
        raise ModelError(f'RowEval: statement {type(s).__name__}')

    def assign(self, t, v, env, mode):
        if isinstance(t, ast.Name):
            cur = env.get(t.id)
            if isinstance(cur, tuple) and cur and cur[0] == 'view':
                cur[1][cur[2]] = v & 1
            else:
                env[t.id] = v
            return
        if isinstance(t, ast.Subscript):
            arr = self.ev(t.value, env, mode)
            sl = t.slice
            if isinstance(sl, ast.Constant) and sl.value is Ellipsis:
                if mode == 'bp':
                    bit = 1 if v in (255, 0xff, 1, -1) else 0
                    if v not in (0, 255, 1, -1):
                        bit = v & 1
                    for j in range(len(arr)):
                        arr[j] = bit if not isinstance(v, list) else v[j]
                else:
                    arr[0] = (v if not isinstance(v, list) else v[0]) & 0xff
                return
            if isinstance(sl, ast.Tuple) and len(sl.elts) == 3:
                j = self.ev(sl.elts[1], env, mode)
                arr[j] = v & 1
                return
        raise ModelError('RowEval: store target')

    def ev(self, e, env, mode):
        if isinstance(e, ast.Constant):
            return e.value
        if isinstance(e, ast.Name):
            v = env[e.id] if e.id in env else self.consts[e.id]
            if isinstance(v, tuple) and v and v[0] == 'view':
                return v[1][v[2]]
            return v
        if isinstance(e, ast.Subscript):
            base = self.ev(e.value, env, mode)
            sl = e.slice
            if isinstance(base, tuple) and not (base and base[0] == 'view'):
                if isinstance(sl, ast.Slice):
                    return base[(self.ev(sl.lower, env, mode) if sl.lower else 0):]
                return base[self.ev(sl, env, mode)]
            if isinstance(sl, ast.Constant) and sl.value is Ellipsis:
                return base
            if isinstance(sl, ast.Tuple) and len(sl.elts) == 3:
                j = self.ev(sl.elts[1], env, mode)
                return base[j]
            raise ModelError('RowEval: subscript')
        if isinstance(e, ast.UnaryOp) and isinstance(e.op, ast.Invert):
            v = self.ev(e.operand, env, mode)
            if isinstance(v, bool):
                return not v
            if mode == 'bp':
                return (~v) & 1
            return (~v) & 0xff
        if isinstance(e, ast.BinOp):
            return self.op(e.op, self.ev(e.left, env, mode), self.ev(e.right, env, mode), mode)
        if isinstance(e, ast.Compare):
            a, b = self.ev(e.left, env, mode), self.ev(e.comparators[0], env, mode)
            a = a[0] if isinstance(a, list) else a
            b = b[0] if isinstance(b, list) else b
            return (a == b) if isinstance(e.ops[0], ast.Eq) else (a != b)
        if isinstance(e, ast.Call):
            name = ast.unparse(e.func)
            kw = {k.arg: k.value for k in e.keywords}
            if name in ('np.bitwise_xor', 'np.bitwise_or', 'np.bitwise_and'):
                a, b = self.ev(e.args[0], env, mode), self.ev(e.args[1], env, mode)
                av = a[0] if isinstance(a, list) else a
                bv = b[0] if isinstance(b, list) else b
                r = {'np.bitwise_xor': av ^ bv, 'np.bitwise_or': av | bv, 'np.bitwise_and': av & bv}[name] & 0xff
                if 'out' in kw:
                    out = self.ev(kw['out'], env, mode)
                    w = True
                    if 'where' in kw:
                        w = bool(self.ev(kw['where'], env, mode))
                    if w:
                        out[0] = r
                    return out
                return r
            if name == 'np.putmask':
                out = self.ev(e.args[0], env, mode)
                if self.ev(e.args[1], env, mode):
                    out[0] = self.ev(e.args[2], env, mode) & 0xff
                return None
            short = name.split('.')[-1]
            if short in self.funcs:
                return self.run(self.funcs[short], [self.ev(a, env, mode) for a in e.args], mode)
        raise ModelError(f'RowEval: expression {ast.unparse(e)[:60]}')

    def op(self, op, a, b, mode):
        a = a[0] if isinstance(a, list) else a
        b = b[0] if isinstance(b, list) else b
        if isinstance(a, bool) or isinstance(b, bool):
            a, b = int(a), int(b)
            r = {ast.BitAnd: a & b, ast.BitOr: a | b, ast.BitXor: a ^ b}.get(type(op))
            if r is None:
                raise ModelError('RowEval: bool op')
            return bool(r) if r in (0, 1) else r
        if mode == 'bp':
            a = 1 if a in (255, -1) else a
            b = 1 if b in (255, -1) else b
        if isinstance(op, ast.BitAnd):
            return a & b
        if isinstance(op, ast.BitOr):
            return a | b
        if isinstance(op, ast.BitXor):
            return a ^ b
        if isinstance(op, ast.LShift):
            return (a << b) & 0xff
        if isinstance(op, ast.RShift):
            return a >> b
        raise ModelError('RowEval: operator')


def second_evaluator(rep, lg, tabs, seed=0):
    """Recompute every operator table with RowEval and require agreement with engine A's bitset tables."""
    rep.rule('THOROUGH.second-eval', 'an independently written row-by-row evaluator reproduces every table of the bitset-parallel interpreter')
    rnd = random.Random(seed)
    ev = RowEval(lg.funcs, lg.consts)
    total = 0
    for (fname, k), tab in sorted(tabs.items()):
        f = lg.func(fname)
        if fname.startswith('bp'):
            nplanes = 3 if fname.startswith('bp8v') else 2
            radix = 1 << nplanes
            mode = 'bp'
        else:
            nplanes, radix, mode = 3, 8, 'mv'
        n = radix ** k
        rows = range(n) if n <= 512 else sorted(rnd.sample(range(n), 512))
        bad = []
        for row in rows:
            vals = [(row // radix ** j) % radix for j in range(k)]
            if mode == 'bp':
                ins = [[(v >> b) & 1 for b in range(nplanes)] for v in vals]
                out = [1, 0, 1][:nplanes]
                ev.run(f, [out] + ins, 'bp')
                got = sum(bit << b for b, bit in enumerate(out))
            else:
                ins = [[v] for v in vals]
                out = [0xA5]
                ev.run(f, [out] + ins, 'mv')
                got = out[0]
            total += 1
            if got != tab[row]:
                bad.append((row, got, tab[row]))
        ok = not bad
        rep.ob('THOROUGH.second-eval', f'{fname}/{k}', ok, evals=len(rows))
        if not ok:
            raise AnalysisError(f'engine A and the second evaluator disagree on {fname} arity {k}: {bad[:3]} - the analysis cannot be trusted')
    rep.note(f'thorough: second evaluator re-computed {total} table rows')


def alias_sweep(rep, lg):
    """Alias safety of every bit-parallel operator for every operand position (informational; a violation only
    if a call site uses an unsafe combination - that is decided by the quick rule C02.alias)."""
    from .tt import LaneViolation
    table = {}
    for pre, nplanes in (('bp8v', 3), ('bp4v', 2)):
        for op in ('buf', 'not', 'and', 'or', 'xor'):
            fname = f'{pre}_{op}'
            for k in ((1,) if op in ('buf', 'not') else (2, 3)):
                plain = lg.bp_table(fname, k, nplanes)[0]
                for j in range(k):
                    try:
                        safe = lg.bp_table(fname, k, nplanes, alias=j)[0] == plain
                    except LaneViolation:
                        safe = False
                    table[f'{fname}/{k} out=in{j}'] = safe
    rep.extra['alias_safety'] = table
    rep.note(f'thorough: alias sweep - safe: {sorted(k for k, v in table.items() if v)}')
