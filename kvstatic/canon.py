"""Engine N - semantics-preserving normal form of a function, used for *equivalence modulo refactoring*.

A rule in checks/ speaks about the code as the maintainers wrote it. A behaviour-preserving edit (a helper function, a
hoisted temporary, a loop instead of four unrolled statements, a guard clause instead of a nested if, renamed locals) must
not raise an alarm. Instead of teaching every rule every idiom, each function of the analysed tree is compared with the
same function of the reference copy (verif/reference/kyupy, the tree on which every rule was confirmed by reading) *after
both are brought into a normal form by the rewrites below*. If the normal forms are identical, the function computes what
the reference function computes and the rules are evaluated on the reference form of that function; if they differ, the
rules see the function as it is. The normal form is only ever used to *suppress* a textual difference - alarms still come
from the rules, evaluated on the actual code. Every rewrite therefore has to be semantics-preserving; each states its side
condition:

  inline      call of a helper whose body is one `return <expr>` (closure, module-level function or method of the same
              class), all arguments simple (names, attributes, subscripts, constants): replaced by the expression;
              a procedure helper (no return) called as a statement is spliced in.
  unroll      `for v in (a, b, c)` / `for k in range(c1, c2)` with at most 8 constant trips and no break/continue;
              `[e for k in <such>]`; `any/all(<such>)` in a boolean context.
  split       `a, b = x, y` with no target read on the other right-hand sides -> `a = x; b = y`.
  subscript-aug  `X[i] op= e` and `o.attr op= e`  ->  `X[i] = X[i] op e` (never for plain names: in-place on arrays).
  guards      `if c: continue` + rest -> `if not c: rest`; `if c: A; return` + rest -> if/else; nested ifs merged with
              `and`; `if c: T = a else: T = b` -> `T = a if c else b`; same for return; negations pushed inwards
              (not/==/!=/is/in, De Morgan) - never through `<`-type comparisons (NaN).
  copy-prop   a local bound exactly once to a pure expression, all uses after the binding in the same block and no
              statement between binding and last use writes anything the expression reads -> uses replaced, binding
              dropped; dead pure bindings dropped.
  commute     operands of `& | ^ *`, `==`, `!=` sorted; `+` only when all operands are visibly numeric.
  alpha       locals renamed v0, v1, ... in order of first occurrence (parameters and globals keep their names).
"""
from __future__ import annotations

import ast
import re
import copy

PURE_CALLS = {'len', 'int', 'float', 'min', 'max', 'abs', 'bool', 'str', 'tuple', 'range', 'isinstance'}
NP_PURE = {'choose', 'where', 'maximum', 'minimum', 'logical_and', 'logical_or', 'logical_not', 'bitwise_and', 'bitwise_or', 'bitwise_xor', 'abs', 'arange'}
PURE_METHODS = {'lower', 'upper', 'get', 'startswith', 'endswith', 'index', 'strip', 'keys', 'values', 'items'}
MAX_TRIPS = 8


# --------------------------------------------------------------------------------------------- small helpers

def clone(node):
    """Deep copy of a subtree without the `_parent` back links core.Module adds (they would drag the whole module along)."""
    memo = {}
    par = getattr(node, '_parent', None)
    if par is not None:
        memo[id(par)] = None
    new = copy.deepcopy(node, memo)
    for n in ast.walk(new):
        if hasattr(n, '_parent'):
            del n._parent
    return new


def _blocks(node):
    """All statement lists below node (including node's own)."""
    for n in ast.walk(node):
        for f in ('body', 'orelse', 'finalbody'):
            b = getattr(n, f, None)
            if isinstance(b, list) and b and isinstance(b[0], ast.stmt):
                yield n, f, b
        if isinstance(n, ast.Try):
            for h in n.handlers:
                yield h, 'body', h.body


def _scopes(fn):
    """fn and the functions nested in it, innermost first."""
    out = []

    def rec(f):
        for n in _own_walk(f):
            if isinstance(n, ast.FunctionDef) and n is not f:
                rec(n)
        out.append(f)
    rec(fn)
    return out


def _own_walk(scope):
    """Nodes of scope without the insides of nested functions / lambdas (the nested def node itself is yielded)."""
    todo = list(ast.iter_child_nodes(scope))
    while todo:
        n = todo.pop()
        yield n
        if isinstance(n, (ast.FunctionDef, ast.Lambda, ast.AsyncFunctionDef)):
            continue
        todo.extend(ast.iter_child_nodes(n))


def _own_blocks(scope):
    for n in [scope] + list(_own_walk(scope)):
        if n is not scope and isinstance(n, (ast.FunctionDef, ast.Lambda, ast.AsyncFunctionDef)):
            continue
        for f in ('body', 'orelse', 'finalbody'):
            b = getattr(n, f, None)
            if isinstance(b, list) and b and isinstance(b[0], ast.stmt):
                yield n, f, b
        if isinstance(n, ast.Try):
            for h in n.handlers:
                yield h, 'body', h.body


def _closure_names(scope):
    """Names mentioned inside functions nested in scope (they may be read or written at any time)."""
    out = set()
    for n in _own_walk(scope):
        if isinstance(n, (ast.FunctionDef, ast.Lambda)) and n is not scope:
            for m in ast.walk(n):
                if isinstance(m, ast.Name):
                    out.add(m.id)
    return out


def _txt(n):
    return ast.unparse(n)


def _simple_arg(e):
    if isinstance(e, (ast.Name, ast.Constant)):
        return True
    if isinstance(e, ast.Attribute):
        return _simple_arg(e.value)
    if isinstance(e, ast.Subscript):
        return _simple_arg(e.value) and _pure(e.slice)
    if isinstance(e, ast.UnaryOp):
        return _simple_arg(e.operand)
    return False


def _pure(e, allow_list=False):
    """Expression without side effects whose value depends only on what it reads."""
    if isinstance(e, (ast.Name, ast.Constant)):
        return True
    if isinstance(e, ast.Attribute):
        return _pure(e.value)
    if isinstance(e, ast.Subscript):
        return _pure(e.value) and _pure(e.slice)
    if isinstance(e, ast.Slice):
        return all(x is None or _pure(x) for x in (e.lower, e.upper, e.step))
    if isinstance(e, (ast.BinOp,)):
        return _pure(e.left) and _pure(e.right)
    if isinstance(e, ast.UnaryOp):
        return _pure(e.operand)
    if isinstance(e, ast.BoolOp):
        return all(_pure(v) for v in e.values)
    if isinstance(e, ast.Compare):
        return _pure(e.left) and all(_pure(c) for c in e.comparators)
    if isinstance(e, ast.IfExp):
        return _pure(e.test) and _pure(e.body) and _pure(e.orelse)
    if isinstance(e, ast.Tuple):
        return all(_pure(x) for x in e.elts)
    if isinstance(e, ast.List) and allow_list:
        return all(_pure(x) for x in e.elts)
    if isinstance(e, ast.Call) and not e.keywords:
        if isinstance(e.func, ast.Name) and e.func.id in PURE_CALLS:
            return all(_pure(a) for a in e.args)
        if isinstance(e.func, ast.Attribute) and isinstance(e.func.value, ast.Name) and e.func.value.id == 'np' and e.func.attr in NP_PURE:
            return all(_pure(a, True) for a in e.args)
        if isinstance(e.func, ast.Attribute) and isinstance(e.func.value, ast.Name) and e.func.value.id == 'math' \
                and e.func.attr in ('ceil', 'floor', 'log2', 'log', 'sqrt', 'erf', 'exp', 'fabs', 'trunc', 'log10', 'pow'):
            return all(_pure(a) for a in e.args)      # functions of the math module: a value (or an exception) determined by the arguments
        if isinstance(e.func, ast.Attribute) and e.func.attr in PURE_METHODS:
            return _pure(e.func.value) and all(_pure(a) for a in e.args)
    return False


NOEFFECT_CALLS = PURE_CALLS | {'zip', 'enumerate', 'reversed', 'sorted', 'list', 'set', 'dict', 'sum', 'any', 'all', 'print', 'deque', 'iter',
                               'next', 'hash', 'repr', 'type', 'id', 'round', 'divmod', 'ord', 'chr', 'frozenset'}
NOEFFECT_METHODS = PURE_METHODS | {'format', 'count', 'copy', 'join', 'split', 'replace', 'astype', 'swapaxes', 'reshape', 'view', 'info', 'warn',
                                   'warning', 'debug', 'range', 'isdigit', 'find', 'rfind', 'tolist', 'any', 'all', 'sum', 'min', 'max'}


RECEIVER_ONLY = {'append', 'extend', 'add', 'insert', 'update', 'setdefault', 'pop', 'remove', 'discard', 'clear', 'sort', 'reverse', 'popleft',
                 'appendleft', 'popitem'}


def _noeffect(call):
    """Call that does not modify program state reachable from its arguments (may allocate, may do I/O)."""
    if _pure(call):
        return True
    if any(k.arg == 'out' for k in call.keywords):
        return False
    f = call.func
    if isinstance(f, ast.Name):
        return f.id in NOEFFECT_CALLS
    if isinstance(f, ast.Attribute):
        if isinstance(f.value, ast.Name) and f.value.id in ('np', 'math', 'log', 're'):
            return f.attr not in ('copyto', 'put', 'place', 'putmask', 'fill')
        return f.attr in NOEFFECT_METHODS
    return False


def _movable(e):
    """Expression that may be evaluated later as long as nothing it reads changes: no call with effects, no walrus,
    no yield/await/lambda."""
    for n in ast.walk(e):
        if isinstance(n, ast.Call) and not _noeffect(n):
            return False
        if isinstance(n, (ast.NamedExpr, ast.Yield, ast.YieldFrom, ast.Await, ast.Lambda)):
            return False
    return True


def _path(e):
    """Access path of a Name/Attribute/Subscript chain as a tuple ('self','c') - subscripts end the path."""
    if isinstance(e, ast.Name):
        return (e.id,)
    if isinstance(e, ast.Attribute):
        p = _path(e.value)
        return p + (e.attr,) if p else None
    if isinstance(e, ast.Subscript):
        return _path(e.value)
    if isinstance(e, ast.Call):
        return _path(e.func.value) if isinstance(e.func, ast.Attribute) else None
    return None


def _reads(e):
    """(names read, access paths read through attribute/subscript, names read as whole values)."""
    names, paths, chained = set(), set(), set()
    for n in ast.walk(e):
        if isinstance(n, ast.Name):
            names.add(n.id)
        if isinstance(n, (ast.Attribute, ast.Subscript)):
            p = _path(n)
            if p:
                paths.add(p)
            b = n
            while isinstance(b, (ast.Attribute, ast.Subscript)):
                b = b.value
            if isinstance(b, ast.Name):
                chained.add(id(b))
    bare = {n.id for n in ast.walk(e) if isinstance(n, ast.Name) and id(n) not in chained}
    return names, paths, bare


def _writes(st, own=True):
    """(names bound, access paths stored to, paths mentioned by impure calls) by statement st (nested included)."""
    names, paths, calls = set(), set(), set()
    for n in ast.walk(st):
        if isinstance(n, ast.Name) and isinstance(n.ctx, (ast.Store, ast.Del)):
            names.add(n.id)
        elif isinstance(n, (ast.Attribute, ast.Subscript)) and isinstance(n.ctx, (ast.Store, ast.Del)):
            p = _path(n)
            if p:
                paths.add(p)
        elif isinstance(n, ast.AugAssign):
            p = _path(n.target)
            if p and len(p) == 1:
                names.add(p[0])
            elif p:
                paths.add(p)
        elif isinstance(n, ast.Call) and not _noeffect(n):
            if isinstance(n.func, ast.Attribute):
                p = _path(n.func.value)
                if p:
                    calls.add(p)
                if n.func.attr in RECEIVER_ONLY:
                    continue      # container methods change the receiver, never their arguments
            elif isinstance(n.func, ast.Name):
                calls.add(('<fn>', n.func.id))
            for a in list(n.args) + [k.value for k in n.keywords]:
                p = _path(a) if isinstance(a, (ast.Name, ast.Attribute, ast.Subscript)) else None
                if p:
                    calls.add(p)
        elif isinstance(n, (ast.FunctionDef, ast.ClassDef)):
            names.add(n.name)
    return names, paths, calls


def _interferes_names(expr, stmts):
    """only re-binding of plain names (and of the attribute path itself) the expression reads"""
    rn, rp, _ = _reads(expr)
    for st in stmts:
        wn, wp, _wc = _writes(st)
        if rn & wn:
            return True
        for p in wp:
            if any(p == q[:len(p)] and isinstance(st, ast.Assign) and any(isinstance(t, ast.Attribute) and _path(t) == p for t in st.targets) for q in rp):
                return True
    return False


def _prefix(a, b):
    n = min(len(a), len(b))
    return a[:n] == b[:n]


def _interferes(expr, stmts, local_fns=()):
    rn, rp, bare = _reads(expr)
    for st in stmts:
        wn, wp, wc = _writes(st)
        if rn & wn:
            return True
        for p in wp:
            # a store at path p changes what a read at path q yields only if the read goes through p (p is a prefix of q):
            # `self.driver.outs[k] = v` does not change which object `self.driver` is
            if any(q[:len(p)] == p for q in rp) or p[0] in bare:
                return True
        for p in wc:
            if p[0] == '<fn>':
                if p[1] in local_fns and (rp or bare):
                    return True
                continue
            if any(q[:len(p)] == p for q in rp) or p[0] in bare:
                return True
    return False


class _Subst(ast.NodeTransformer):
    def __init__(self, mapping):
        self.mapping = mapping

    def visit_Name(self, node):
        if isinstance(node.ctx, ast.Load) and node.id in self.mapping:
            return copy.deepcopy(self.mapping[node.id])
        return node


def _subst(node, mapping):
    return _Subst(mapping).visit(copy.deepcopy(node))


def _strip_doc(body):
    # doc strings, attribute doc strings (bare string statements anywhere in the body) and `pass`
    return [s for s in body if not isinstance(s, ast.Pass)
            and not (isinstance(s, ast.Expr) and isinstance(s.value, ast.Constant) and isinstance(s.value.value, str))] or [ast.Pass()]


# --------------------------------------------------------------------------------------------- negation / guards

_INT_NAMES = set()


def _collect_int_names(fn):
    """Names that are certainly integers in fn: used as (part of) a subscript index or as a range() argument, or a loop variable
    of enumerate()/range()."""
    out = set()

    def names_in_index(e):
        if isinstance(e, ast.Name):
            out.add(e.id)
        elif isinstance(e, ast.BinOp) and isinstance(e.op, (ast.Add, ast.Sub, ast.Mult)):
            names_in_index(e.left)
            names_in_index(e.right)
        elif isinstance(e, ast.Tuple):
            for x in e.elts:
                names_in_index(x)
    for n in ast.walk(fn):
        if isinstance(n, ast.Subscript) and not isinstance(n.slice, ast.Slice):
            base_is_dict = False
            if not base_is_dict:
                names_in_index(n.slice)
        elif isinstance(n, ast.Call) and isinstance(n.func, ast.Name) and n.func.id == 'range':
            for a in n.args:
                names_in_index(a)
        elif isinstance(n, (ast.For, ast.comprehension)) and isinstance(n.iter, ast.Call) and isinstance(n.iter.func, ast.Name):
            if n.iter.func.id == 'range' and isinstance(n.target, ast.Name):
                out.add(n.target.id)
            elif n.iter.func.id == 'enumerate' and isinstance(n.target, ast.Tuple) and n.target.elts and isinstance(n.target.elts[0], ast.Name):
                out.add(n.target.elts[0].id)
    return out


_INT_ATTRS = set()


def _collect_int_attrs(cls):
    """self.X attributes every assignment of which (anywhere in the class) is an integer-valued expression (len(), int(), math.ceil/floor, integer
    constants and their + - * combinations)."""
    if cls is None:
        return set()
    vals = {}
    for n in ast.walk(cls):
        tg = []
        if isinstance(n, ast.Assign):
            tg = [(t, n.value) for t in n.targets]
        elif isinstance(n, ast.AugAssign):
            tg = [(n.target, None)]
        elif isinstance(n, ast.AnnAssign) and n.value is not None:
            tg = [(n.target, n.value)]
        for t, v in tg:
            for x in ([t] if not isinstance(t, (ast.Tuple, ast.List)) else t.elts):
                if isinstance(x, ast.Attribute) and isinstance(x.value, ast.Name) and x.value.id == 'self':
                    vals.setdefault(x.attr, []).append(v if not isinstance(t, (ast.Tuple, ast.List)) else None)

    def iv(e):
        if e is None:
            return False
        if isinstance(e, ast.Constant):
            return type(e.value) is int
        if isinstance(e, ast.Call) and not e.keywords and isinstance(e.func, ast.Name) and e.func.id in ('len', 'int'):
            return True
        if isinstance(e, ast.Call) and not e.keywords and isinstance(e.func, ast.Attribute) and isinstance(e.func.value, ast.Name) and e.func.value.id == 'math' \
                and e.func.attr in ('ceil', 'floor', 'trunc'):
            return True
        if isinstance(e, ast.BinOp) and isinstance(e.op, (ast.Add, ast.Sub, ast.Mult, ast.FloorDiv)):
            return iv(e.left) and iv(e.right)
        return False
    return {a for a, vs in vals.items() if vs and all(iv(v) for v in vs)}


def _is_int_expr(e):
    if isinstance(e, ast.Constant):
        return type(e.value) is int
    if isinstance(e, ast.Attribute) and isinstance(e.value, ast.Name) and e.value.id == 'self' and e.attr in _INT_ATTRS:
        return True
    if isinstance(e, ast.Call) and not e.keywords and isinstance(e.func, ast.Attribute) and isinstance(e.func.value, ast.Name) and e.func.value.id == 'math' \
            and e.func.attr in ('ceil', 'floor', 'trunc'):
        return True
    if isinstance(e, ast.Name):
        return e.id in _INT_NAMES
    if isinstance(e, ast.Call) and isinstance(e.func, ast.Name) and e.func.id in ('len', 'int'):
        return True
    if isinstance(e, ast.Attribute) and e.attr in ('ndim', 'size', 'itemsize', 'nbytes'):
        return True      # integer attributes of ndarrays
    if isinstance(e, ast.Subscript) and isinstance(e.value, ast.Attribute) and e.value.attr == 'shape' and not isinstance(e.slice, ast.Slice):
        return True      # x.shape[k]
    if isinstance(e, ast.BinOp) and isinstance(e.op, (ast.Add, ast.Sub, ast.Mult)):
        return _is_int_expr(e.left) and _is_int_expr(e.right)
    return False


def _neg(e):
    if isinstance(e, ast.UnaryOp) and isinstance(e.op, ast.Not):
        return e.operand
    if isinstance(e, ast.BoolOp):
        return ast.BoolOp(op=ast.And() if isinstance(e.op, ast.Or) else ast.Or(), values=[_neg(v) for v in e.values])
    if isinstance(e, ast.Compare) and len(e.ops) == 1:
        flip = {ast.Eq: ast.NotEq, ast.NotEq: ast.Eq, ast.Is: ast.IsNot, ast.IsNot: ast.Is, ast.In: ast.NotIn, ast.NotIn: ast.In}
        t = type(e.ops[0])
        if t in flip:
            return ast.Compare(left=e.left, ops=[flip[t]()], comparators=e.comparators)
        oflip = {ast.Lt: ast.GtE, ast.GtE: ast.Lt, ast.Gt: ast.LtE, ast.LtE: ast.Gt}
        if t in oflip and all(_is_int_expr(x) for x in (e.left, e.comparators[0])):
            return ast.Compare(left=e.left, ops=[oflip[t]()], comparators=e.comparators)  # both sides integers: no NaN
    if isinstance(e, ast.Constant) and isinstance(e.value, bool):
        return ast.Constant(value=not e.value)
    return ast.UnaryOp(op=ast.Not(), operand=e)


class _NegNorm(ast.NodeTransformer):
    def visit_UnaryOp(self, node):
        self.generic_visit(node)
        if isinstance(node.op, ast.Not):
            r = _neg(node.operand)
            if not (isinstance(r, ast.UnaryOp) and isinstance(r.op, ast.Not) and r.operand is node.operand):
                return self.visit(r) if isinstance(r, ast.BoolOp) else r
        return node

    def visit_BoolOp(self, node):
        self.generic_visit(node)
        vals = []
        for v in node.values:  # flatten nested same-operator chains
            if isinstance(v, ast.BoolOp) and type(v.op) is type(node.op):
                vals.extend(v.values)
            else:
                vals.append(v)
        node.values = vals
        return node


def _exits(block, kinds):
    return bool(block) and isinstance(block[-1], kinds)


def _tail_blocks(fn):
    """id(statement list) -> 'loop' | 'fn' for blocks whose end is the end of a loop iteration / of the function."""
    tails = {}

    def mark(body, kind):
        tails[id(body)] = kind
        if body and isinstance(body[-1], ast.If):
            mark(body[-1].body, kind)
            if body[-1].orelse:
                mark(body[-1].orelse, kind)
    for n in ast.walk(fn):
        if isinstance(n, (ast.For, ast.While)):
            mark(n.body, 'loop')
        elif isinstance(n, ast.FunctionDef):
            mark(n.body, 'fn')
    return tails


def _merge_arms(a, b, test):
    """Two statements that differ in exactly one loaded sub-expression: the statement with `x if test else y` there."""
    if type(a) is not type(b) or isinstance(a, (ast.If, ast.For, ast.While, ast.With, ast.Try, ast.FunctionDef, ast.ClassDef)):
        return None
    a = copy.deepcopy(a)
    diffs = []

    def rec(x, y, setter):
        if ast.dump(x) == ast.dump(y):
            return True
        if type(x) is type(y) and not isinstance(x, (ast.Constant, ast.Name)):
            fx = list(ast.iter_fields(x))
            fy = list(ast.iter_fields(y))
            sub = []
            ok = True
            for (kx, vx), (ky, vy) in zip(fx, fy):
                if isinstance(vx, ast.AST) and isinstance(vy, ast.AST):
                    sub.append((vx, vy, (x, kx, None)))
                elif isinstance(vx, list) and isinstance(vy, list) and len(vx) == len(vy) and all(isinstance(e, ast.AST) for e in vx + vy):
                    for i, (ex, ey) in enumerate(zip(vx, vy)):
                        sub.append((ex, ey, (x, kx, i)))
                elif vx != vy:
                    ok = False
            if ok:
                before = len(diffs)
                good = all(rec(vx, vy, st) for vx, vy, st in sub)
                if good and len(diffs) - before <= 1:
                    return True
                del diffs[before:]
        if isinstance(x, ast.expr) and isinstance(y, ast.expr) and isinstance(getattr(x, 'ctx', ast.Load()), ast.Load) \
                and isinstance(getattr(y, 'ctx', ast.Load()), ast.Load) and setter is not None:
            diffs.append((x, y, setter))
            return True
        return False

    if not rec(a, b, None) or len(diffs) != 1:
        return None
    x, y, (par, field, idx) = diffs[0]
    new = ast.IfExp(test=test, body=x, orelse=y)
    if idx is None:
        setattr(par, field, new)
    else:
        getattr(par, field)[idx] = new
    return a


class _PushIfExp(ast.NodeTransformer):
    """`(a, x) if c else (a, y)` -> `(a, x if c else y)`; `f(x) if c else f(y)` -> `f(x if c else y)`: the shared parts that are
    evaluated *besides* the chain of enclosing calls must have no effects (the enclosing calls run once either way)."""
    def visit_IfExp(self, node):
        self.generic_visit(node)
        if isinstance(node.body, (ast.Tuple, ast.List, ast.Call, ast.BinOp, ast.Subscript, ast.Attribute)) and type(node.body) is type(node.orelse):
            m = _merge_arms(ast.Expr(value=node.body), ast.Expr(value=node.orelse), node.test)
            if m is not None and not isinstance(m.value, ast.IfExp):
                inner = [n for n in ast.walk(m.value) if isinstance(n, ast.IfExp) and n.test is node.test]
                if len(inner) == 1:
                    d = inner[0]
                    ok = _movable(node.test)
                    for n in ast.walk(m.value):
                        if isinstance(n, ast.Call) and not _noeffect(n) and not any(x is d for x in ast.walk(n)):
                            ok = False
                        if isinstance(n, (ast.NamedExpr, ast.Yield, ast.YieldFrom, ast.Await, ast.Lambda)):
                            ok = False
                    if ok:
                        return m.value
        return node


def _guards(fn):
    _PushIfExp().visit(fn)
    changed = True
    while changed:
        changed = False
        tails = _tail_blocks(fn)
        for owner, field, body in list(_blocks(fn)):
            in_loop = tails.get(id(body)) == 'loop'
            in_fn = tails.get(id(body)) == 'fn'
            for i, st in enumerate(body):
                if not isinstance(st, ast.If):
                    continue
                rest = body[i + 1:]
                # if c: ...; continue  + rest  (loop body)        -> if c: ... else: rest
                # if c: ...; return    + rest  (function body)    -> if c: ...; return else: rest
                if rest and not st.orelse and ((in_loop and _exits(st.body, ast.Continue)) or
                                               (in_fn and _exits(st.body, ast.Return) and st.body[-1].value is None)):
                    st.body = st.body[:-1] or [ast.Pass()]
                    st.orelse = rest
                    del body[i + 1:]
                    changed = True
                    break
                # if c: return A  + return B
                if in_fn and not st.orelse and len(st.body) == 1 and isinstance(st.body[0], ast.Return) and st.body[0].value is not None \
                        and len(rest) == 1 and isinstance(rest[0], ast.Return) and rest[0].value is not None:
                    body[i:] = [ast.Return(value=ast.IfExp(test=st.test, body=st.body[0].value, orelse=rest[0].value))]
                    changed = True
                    break
                # trailing continue / bare return at the end of loop / function body
                if st.body and in_loop and i == len(body) - 1 and isinstance(st.body[-1], ast.Continue) and len(st.body) > 1:
                    st.body = st.body[:-1]
                    changed = True
                    break
                # empty true arm: if c: pass else: X -> if not c: X
                if len(st.body) == 1 and isinstance(st.body[0], ast.Pass) and st.orelse:
                    st.test = _neg(st.test)
                    st.body, st.orelse = st.orelse, []
                    changed = True
                    break
                # if c: T = a else: T = b  -> T = a if c else b ; likewise return
                if len(st.body) == 1 and len(st.orelse) == 1:
                    a, b = st.body[0], st.orelse[0]
                    if isinstance(a, ast.Assign) and isinstance(b, ast.Assign) and len(a.targets) == 1 and len(b.targets) == 1 \
                            and _txt(a.targets[0]) == _txt(b.targets[0]):
                        body[i] = ast.Assign(targets=a.targets, value=ast.IfExp(test=st.test, body=a.value, orelse=b.value), lineno=st.lineno)
                        changed = True
                        break
                    if isinstance(a, ast.Return) and isinstance(b, ast.Return) and a.value is not None and b.value is not None:
                        body[i] = ast.Return(value=ast.IfExp(test=st.test, body=a.value, orelse=b.value))
                        changed = True
                        break
                    m = _merge_arms(a, b, st.test)
                    if m is not None:
                        body[i] = m
                        changed = True
                        break
                # if p: (if q: R)  -> if p and q: R
                if not st.orelse and len(st.body) == 1 and isinstance(st.body[0], ast.If) and not st.body[0].orelse:
                    inner = st.body[0]
                    st.test = ast.BoolOp(op=ast.And(), values=[st.test, inner.test])
                    st.body = inner.body
                    changed = True
                    break
            if changed:
                break
    # a trailing `continue` / bare `return` as last statement of a loop / function is a no-op
    _PushIfExp().visit(fn)
    tails = _tail_blocks(fn)
    for owner, field, body in list(_blocks(fn)):   # an arm that only leaves, at a place where leaving is what happens anyway
        if isinstance(owner, ast.If) and len(body) == 1 and ((tails.get(id(body)) == 'loop' and isinstance(body[0], ast.Continue))
                                                             or (tails.get(id(body)) == 'fn' and isinstance(body[0], ast.Return) and body[0].value is None)):
            if field == 'orelse':
                del body[:]
            else:
                body[0] = ast.Pass()
    for n in ast.walk(fn):
        if isinstance(n, ast.If) and n.orelse and len(n.body) == 1 and isinstance(n.body[0], ast.Pass):
            n.test = _neg(n.test)
            n.body, n.orelse = n.orelse, []
    tails = _tail_blocks(fn)
    for owner, field, body in list(_blocks(fn)):
        if tails.get(id(body)) == 'loop' and len(body) > 1 and isinstance(body[-1], ast.Continue):
            del body[-1]
        if tails.get(id(body)) == 'fn' and len(body) > 1 and isinstance(body[-1], ast.Return) and body[-1].value is None:
            del body[-1]
    _NegNorm().visit(fn)
    # `if c: A else: B` with a negated test: put the positive test first (stable orientation)
    for n in ast.walk(fn):
        if isinstance(n, ast.If) and n.orelse and isinstance(n.test, ast.UnaryOp) and isinstance(n.test.op, ast.Not):
            n.test = n.test.operand
            n.body, n.orelse = n.orelse, n.body
        if isinstance(n, ast.IfExp) and isinstance(n.test, ast.UnaryOp) and isinstance(n.test.op, ast.Not):
            n.test = n.test.operand
            n.body, n.orelse = n.orelse, n.body


# --------------------------------------------------------------------------------------------- tuple / aug

def _split_tuples(fn):
    for _o, _f, body in list(_blocks(fn)):
        i = 0
        while i < len(body):
            st = body[i]
            if isinstance(st, ast.Assign) and len(st.targets) == 1 and isinstance(st.targets[0], ast.Tuple) \
                    and isinstance(st.value, (ast.Tuple, ast.List)) and len(st.value.elts) == len(st.targets[0].elts) \
                    and not any(isinstance(e, ast.Starred) for e in st.targets[0].elts + st.value.elts):
                tg, vs = st.targets[0].elts, st.value.elts
                ok = True
                for a, t in enumerate(tg):
                    wn, wp, _ = _writes(ast.Assign(targets=[t], value=ast.Constant(value=0)))
                    for b, v in enumerate(vs):
                        if b <= a:
                            continue
                        rn, rp, _b = _reads(v)
                        if (wn & rn) or any(_prefix(p, q) for p in wp for q in rp):
                            ok = False
                if ok and all(_pure(v, True) or k == 0 for k, v in enumerate(vs)):
                    body[i:i + 1] = [ast.Assign(targets=[t], value=v, lineno=st.lineno) for t, v in zip(tg, vs)]
                    i += len(tg)
                    continue
            i += 1


def _scalar_names(fn):
    """Locals every binding of which is a scalar-valued expression (numeric constants, int()/float()/bool()/len()/math.*
    results, arithmetic and comparisons of those): never arrays, so `x op= e` and `x = x op e` are the same."""
    binds = {}
    bad = set()
    for n in ast.walk(fn):
        if isinstance(n, ast.Assign):
            for t in n.targets:
                if isinstance(t, ast.Name):
                    binds.setdefault(t.id, []).append(n.value)
                else:
                    for m in ast.walk(t):
                        if isinstance(m, ast.Name) and isinstance(m.ctx, ast.Store):
                            bad.add(m.id)
        elif isinstance(n, ast.AugAssign) and isinstance(n.target, ast.Name):
            binds.setdefault(n.target.id, []).append(n.value)
        elif isinstance(n, (ast.For, ast.comprehension)):
            for m in ast.walk(n.target):
                if isinstance(m, ast.Name):
                    bad.add(m.id)
        elif isinstance(n, ast.arg):
            bad.add(n.arg)
        elif isinstance(n, ast.With):
            for it in n.items:
                if it.optional_vars is not None:
                    for m in ast.walk(it.optional_vars):
                        if isinstance(m, ast.Name):
                            bad.add(m.id)
        elif isinstance(n, (ast.Global, ast.Nonlocal)):
            bad.update(n.names)
    cand = set(binds) - bad

    def sv(e):
        if isinstance(e, ast.Constant):
            return isinstance(e.value, (int, float))
        if isinstance(e, ast.Name):
            return e.id in cand
        if isinstance(e, ast.Call) and not e.keywords:
            if isinstance(e.func, ast.Name) and e.func.id in ('int', 'float', 'bool', 'len', 'abs'):
                return True
            if isinstance(e.func, ast.Attribute) and isinstance(e.func.value, ast.Name) and e.func.value.id == 'math':
                return True
            return False
        if isinstance(e, ast.BinOp):
            return sv(e.left) and sv(e.right)
        if isinstance(e, ast.UnaryOp):
            return sv(e.operand)
        if isinstance(e, ast.Compare):
            return sv(e.left) and all(sv(c) for c in e.comparators)
        if isinstance(e, ast.IfExp):
            return sv(e.body) and sv(e.orelse)
        return False
    changed = True
    while changed:
        changed = False
        for t in list(cand):
            if not all(sv(v) for v in binds[t]):
                cand.discard(t)
                changed = True
    # a local that is used as a plain subscript index or range() argument holds an integer there (the assumption _collect_int_names states)
    return cand | ((_collect_int_names(fn) & set(binds)) - bad)


class _AugNorm(ast.NodeTransformer):
    def __init__(self, scalars=()):
        self.scalars = set(scalars)

    def visit_Call(self, node):
        self.generic_visit(node)
        if isinstance(node.func, ast.Name) and node.func.id == 'int' and len(node.args) == 1 and not node.keywords \
                and isinstance(node.args[0], ast.Constant) and type(node.args[0].value) is int:
            return node.args[0]
        return node

    def visit_Subscript(self, node):
        self.generic_visit(node)
        if isinstance(node.slice, ast.Tuple) and len(node.slice.elts) > 1:  # X[i, :] is X[i]
            el = list(node.slice.elts)
            while len(el) > 1 and isinstance(el[-1], ast.Slice) and el[-1].lower is None and el[-1].upper is None and el[-1].step is None:
                el.pop()
            node.slice = el[0] if len(el) == 1 else ast.Tuple(elts=el, ctx=ast.Load())
        # X[c][i, j] on an array is X[c, i, j] when c is an integer constant
        if isinstance(node.value, ast.Subscript) and isinstance(node.value.slice, ast.Constant) and type(node.value.slice.value) is int \
                and isinstance(node.value.value, ast.Attribute):
            inner = node.value
            rest = list(node.slice.elts) if isinstance(node.slice, ast.Tuple) else [node.slice]
            if not any(isinstance(r, ast.Starred) for r in rest):
                return ast.Subscript(value=inner.value, slice=ast.Tuple(elts=[inner.slice] + rest, ctx=ast.Load()), ctx=node.ctx)
        return node

    def visit_AugAssign(self, node):
        self.generic_visit(node)
        if isinstance(node.target, ast.Name) and node.target.id in self.scalars:
            return ast.Assign(targets=[node.target], value=ast.BinOp(left=ast.Name(id=node.target.id, ctx=ast.Load()), op=node.op, right=node.value),
                              lineno=node.lineno)
        if isinstance(node.target, (ast.Subscript, ast.Attribute)) and _pure(node.target):
            load = copy.deepcopy(node.target)
            for n in ast.walk(load):
                if hasattr(n, 'ctx'):
                    n.ctx = ast.Load()
            return ast.Assign(targets=[node.target], value=ast.BinOp(left=load, op=node.op, right=node.value), lineno=node.lineno)
        return node


# --------------------------------------------------------------------------------------------- unrolling

def _const_iter(it):
    """Elements of a loop iterable known at analysis time, or None."""
    if isinstance(it, (ast.Tuple, ast.List)) and len(it.elts) <= MAX_TRIPS and all(_simple_arg(e) or _pure(e) for e in it.elts):
        return list(it.elts)
    if isinstance(it, ast.Call) and isinstance(it.func, ast.Name) and it.func.id == 'range' and not it.keywords \
            and 1 <= len(it.args) <= 2 and all(isinstance(a, ast.Constant) and isinstance(a.value, int) for a in it.args):
        lo, hi = (0, it.args[0].value) if len(it.args) == 1 else (it.args[0].value, it.args[1].value)
        if 0 <= hi - lo <= MAX_TRIPS:
            return [ast.Constant(value=k) for k in range(lo, hi)]
    return None


def _bind(target, value):
    """mapping for `target = value` with a Name target or equal-length tuples."""
    if isinstance(target, ast.Name):
        return {target.id: value}
    if isinstance(target, ast.Tuple) and isinstance(value, ast.Tuple) and len(target.elts) == len(value.elts) \
            and all(isinstance(t, ast.Name) for t in target.elts):
        return {t.id: v for t, v in zip(target.elts, value.elts)}
    return None


class _UnrollExpr(ast.NodeTransformer):
    def _comp(self, node):
        if len(node.generators) != 1:
            return None
        g = node.generators[0]
        if g.is_async:
            return None
        elts = _const_iter(g.iter)
        if elts is None:
            return None
        out = []
        for e in elts:
            m = _bind(g.target, e)
            if m is None:
                return None
            if g.ifs:
                return None
            out.append(_subst(node.elt, m))
        return out

    def visit_ListComp(self, node):
        self.generic_visit(node)
        r = self._comp(node)
        return ast.List(elts=r, ctx=ast.Load()) if r is not None else node

    def visit_Call(self, node):
        self.generic_visit(node)
        if isinstance(node.func, ast.Name) and node.func.id in ('any', 'all') and len(node.args) == 1 and not node.keywords:
            a = node.args[0]
            elts = None
            if isinstance(a, ast.GeneratorExp):
                elts = self._comp(a)
            elif isinstance(a, (ast.List, ast.Tuple)):
                elts = a.elts
            if elts is not None and 1 <= len(elts) <= MAX_TRIPS and getattr(node, '_boolctx', False):
                if len(elts) == 1:
                    return elts[0]
                return ast.BoolOp(op=ast.Or() if node.func.id == 'any' else ast.And(), values=list(elts))
        if isinstance(node.func, ast.Name) and node.func.id in ('list', 'tuple') and len(node.args) == 1 and isinstance(node.args[0], ast.List) \
                and node.func.id == 'list':
            return node.args[0]
        return node

    def visit_Subscript(self, node):
        self.generic_visit(node)
        if isinstance(node.value, (ast.List, ast.Tuple)) and isinstance(node.slice, ast.Constant) and isinstance(node.slice.value, int) \
                and isinstance(node.ctx, ast.Load) and -len(node.value.elts) <= node.slice.value < len(node.value.elts):
            return node.value.elts[node.slice.value]
        return node


def _mark_boolctx(fn):
    def mark(e):
        if isinstance(e, ast.Call):
            e._boolctx = True
        elif isinstance(e, ast.BoolOp):
            for v in e.values:
                mark(v)
        elif isinstance(e, ast.UnaryOp) and isinstance(e.op, ast.Not):
            mark(e.operand)
    for n in ast.walk(fn):
        if isinstance(n, (ast.If, ast.While, ast.IfExp)):
            mark(n.test)
        if isinstance(n, ast.comprehension):
            for c in n.ifs:
                mark(c)
        if isinstance(n, ast.Assert):
            mark(n.test)


def _unroll(fn):
    _mark_boolctx(fn)
    _UnrollExpr().visit(fn)
    changed = True
    while changed:
        changed = False
        for _o, _f, body in list(_blocks(fn)):
            for i, st in enumerate(body):
                if not isinstance(st, ast.For) or st.orelse:
                    continue
                elts = _const_iter(st.iter)
                if elts is None or not elts:
                    continue
                if any(isinstance(n, (ast.Break, ast.Continue)) for n in ast.walk(st)):
                    continue
                tnames = {n.id for n in ast.walk(st.target) if isinstance(n, ast.Name)}
                wn = set()
                for s in st.body:
                    wn |= _writes(s)[0]
                if tnames & wn:
                    continue
                # loop variables must not be read after the loop
                after = [n for s in body[i + 1:] for n in ast.walk(s) if isinstance(n, ast.Name) and n.id in tnames and isinstance(n.ctx, ast.Load)]
                if after:
                    continue
                new = []
                ok = True
                for e in elts:
                    m = _bind(st.target, e)
                    if m is None:
                        ok = False
                        break
                    new.extend(_subst(s, m) for s in st.body)
                if ok:
                    body[i:i + 1] = new
                    changed = True
                    break
            if changed:
                break
    _mark_boolctx(fn)
    _UnrollExpr().visit(fn)


# --------------------------------------------------------------------------------------------- accumulation loops

def _mentions(node, name):
    return any(isinstance(n, ast.Name) and n.id == name for n in ast.walk(node))


def _comprehensions(fn):
    """`v = []` + `for T in IT: [if C:] v.append(E)` -> `v = [E for T in IT if C]` (extend: a second generator);
    `d = {}`/`dict()` + `for ...: d[K] = V` -> dict comprehension; `dict(<generator of pairs>)` -> dict comprehension;
    `for T in (E for V in IT if C): B` -> `for V in IT: if C: T = E; B`."""
    class G(ast.NodeTransformer):
        def visit_Call(self, node):
            self.generic_visit(node)
            if isinstance(node.func, ast.Name) and node.func.id == 'dict' and len(node.args) == 1 and not node.keywords \
                    and isinstance(node.args[0], (ast.GeneratorExp, ast.ListComp)) and isinstance(node.args[0].elt, ast.Tuple) \
                    and len(node.args[0].elt.elts) == 2:
                g = node.args[0]
                return ast.DictComp(key=g.elt.elts[0], value=g.elt.elts[1], generators=g.generators)
            if isinstance(node.func, ast.Name) and node.func.id in ('dict', 'list') and not node.args and not node.keywords:
                return ast.Dict(keys=[], values=[]) if node.func.id == 'dict' else ast.List(elts=[], ctx=ast.Load())
            # list(map(f, xs)) -> [f(x) for x in xs]
            if isinstance(node.func, ast.Name) and node.func.id == 'list' and len(node.args) == 1 and not node.keywords \
                    and isinstance(node.args[0], ast.Call) and isinstance(node.args[0].func, ast.Name) and node.args[0].func.id == 'map' \
                    and len(node.args[0].args) == 2 and isinstance(node.args[0].args[0], (ast.Name, ast.Attribute)):
                m = node.args[0]
                x = ast.Name(id='_x_', ctx=ast.Load())
                return ast.ListComp(elt=ast.Call(func=m.args[0], args=[x], keywords=[]),
                                    generators=[ast.comprehension(target=ast.Name(id='_x_', ctx=ast.Store()), iter=m.args[1], ifs=[], is_async=0)])
            return node

        def visit_List(self, node):
            self.generic_visit(node)
            if len(node.elts) == 1 and isinstance(node.elts[0], ast.Starred) and isinstance(node.ctx, ast.Load):  # [*x] is list(x)
                return ast.Call(func=ast.Name(id='list', ctx=ast.Load()), args=[node.elts[0].value], keywords=[])
            return node

        def visit_Compare(self, node):
            self.generic_visit(node)
            if len(node.ops) == 1 and isinstance(node.ops[0], (ast.In, ast.NotIn)) and isinstance(node.comparators[0], (ast.List, ast.Tuple, ast.Set)) \
                    and all(isinstance(e, ast.Constant) for e in node.comparators[0].elts):
                els = sorted(node.comparators[0].elts, key=lambda e: repr(e.value))  # membership in a literal: order is immaterial
                node.comparators = [ast.Tuple(elts=els, ctx=ast.Load())]
            return node

        def _iter(self, it):
            if isinstance(it, ast.Call) and isinstance(it.func, ast.Attribute) and it.func.attr == 'keys' and not it.args and not it.keywords:
                return it.func.value  # iterating a dict is iterating its keys
            return it

        def visit_For(self, node):
            self.generic_visit(node)
            node.iter = self._iter(node.iter)
            return node

        def visit_comprehension(self, node):
            self.generic_visit(node)
            node.iter = self._iter(node.iter)
            return node
    G().visit(fn)
    changed = True
    while changed:
        changed = False
        for _o, _f, body in list(_blocks(fn)):
            for i, st in enumerate(body):
                # a comprehension / conditional expression evaluated only for its effects is a loop / an if statement
                if isinstance(st, ast.Expr) and isinstance(st.value, ast.ListComp):
                    inner = [ast.Expr(value=st.value.elt)]
                    for g in reversed(st.value.generators):
                        for c in reversed(g.ifs):
                            inner = [ast.If(test=c, body=inner, orelse=[])]
                        tgt = g.target
                        for n in ast.walk(tgt):
                            if hasattr(n, 'ctx'):
                                n.ctx = ast.Store()
                        inner = [ast.For(target=tgt, iter=g.iter, body=inner, orelse=[], lineno=getattr(st, 'lineno', 0))]
                    body[i:i + 1] = inner
                    changed = True
                    break
                if isinstance(st, ast.Expr) and isinstance(st.value, ast.IfExp):
                    body[i] = ast.If(test=st.value.test, body=[ast.Expr(value=st.value.body)], orelse=[ast.Expr(value=st.value.orelse)], lineno=getattr(st, 'lineno', 0))
                    changed = True
                    break
                # for over a generator expression
                if isinstance(st, ast.For) and isinstance(st.iter, ast.GeneratorExp) and len(st.iter.generators) == 1 and not st.orelse \
                        and not st.iter.generators[0].is_async:
                    g = st.iter.generators[0]
                    inner = list(st.body)
                    if not (isinstance(st.iter.elt, ast.Name) and isinstance(st.target, ast.Name) and st.iter.elt.id == st.target.id
                            and isinstance(g.target, ast.Name) and g.target.id == st.target.id):
                        tgt = copy.deepcopy(st.target)
                        inner = [ast.Assign(targets=[tgt], value=st.iter.elt, lineno=st.lineno)] + inner
                    for c in reversed(g.ifs):
                        inner = [ast.If(test=c, body=inner, orelse=[])]
                    st.target = g.target
                    st.iter = g.iter
                    st.body = inner
                    for n in ast.walk(st.target):
                        if hasattr(n, 'ctx'):
                            n.ctx = ast.Store()
                    changed = True
                    break
                if not (isinstance(st, ast.Assign) and len(st.targets) == 1 and isinstance(st.targets[0], ast.Name)):
                    continue
                v = st.targets[0].id
                if i + 1 >= len(body) or not isinstance(body[i + 1], ast.For) or body[i + 1].orelse:
                    continue
                loop = body[i + 1]
                inner = loop.body
                conds = []
                while len(inner) == 1 and isinstance(inner[0], ast.If) and not inner[0].orelse:
                    conds.append(inner[0].test)
                    inner = inner[0].body
                if len(inner) != 1 or _mentions(loop.iter, v) or any(_mentions(c, v) for c in conds):
                    continue
                act = inner[0]
                new = None
                gen = ast.comprehension(target=loop.target, iter=loop.iter, ifs=conds, is_async=0)
                if isinstance(st.value, ast.List) and not st.value.elts and isinstance(act, ast.Expr) and isinstance(act.value, ast.Call) \
                        and isinstance(act.value.func, ast.Attribute) and isinstance(act.value.func.value, ast.Name) and act.value.func.value.id == v \
                        and len(act.value.args) == 1 and not act.value.keywords and not _mentions(act.value.args[0], v):
                    if act.value.func.attr == 'append':
                        new = ast.ListComp(elt=act.value.args[0], generators=[gen])
                    elif act.value.func.attr == 'extend':
                        y = ast.Name(id='_y_', ctx=ast.Load())
                        new = ast.ListComp(elt=y, generators=[gen, ast.comprehension(target=ast.Name(id='_y_', ctx=ast.Store()), iter=act.value.args[0], ifs=[], is_async=0)])
                elif isinstance(st.value, ast.Dict) and not st.value.keys and isinstance(act, ast.Assign) and len(act.targets) == 1 \
                        and isinstance(act.targets[0], ast.Subscript) and isinstance(act.targets[0].value, ast.Name) and act.targets[0].value.id == v \
                        and not _mentions(act.targets[0].slice, v) and not _mentions(act.value, v):
                    new = ast.DictComp(key=act.targets[0].slice, value=act.value, generators=[gen])
                if new is None:
                    continue
                # the loop variables must not be used afterwards (a comprehension does not leak them)
                tn = {n.id for n in ast.walk(loop.target) if isinstance(n, ast.Name)}
                if any(isinstance(n, ast.Name) and n.id in tn and isinstance(n.ctx, ast.Load) for s2 in body[i + 2:] for n in ast.walk(s2)):
                    continue
                body[i:i + 2] = [ast.Assign(targets=[st.targets[0]], value=new, lineno=st.lineno)]
                changed = True
                break
            if changed:
                break


# --------------------------------------------------------------------------------------------- inlining

def _opaque_decorators(fdef):
    """decorators other than the JIT markers (numba.njit, cuda.jit(...)), which do not change what the function computes"""
    return [d for d in fdef.decorator_list if not (_txt(d).startswith('numba.') or _txt(d).startswith('cuda.jit') or _txt(d) in ('njit', 'staticmethod'))]


def _single_return(fdef):
    """Parameter names and the returned expression if the (normalised) body of fdef is one `return <expr>`."""
    a = fdef.args
    if a.vararg or a.kwarg or a.kwonlyargs or a.defaults or a.posonlyargs or _opaque_decorators(fdef):
        return None
    body = _strip_doc(fdef.body)
    if len(body) == 1 and isinstance(body[0], ast.Return) and body[0].value is not None:
        return [p.arg for p in a.args], body[0].value
    return None


def _procedure(fdef):
    a = fdef.args
    if a.vararg or a.kwarg or a.kwonlyargs or a.defaults or a.posonlyargs or _opaque_decorators(fdef):
        return None
    body = _strip_doc(fdef.body)
    if any(isinstance(n, (ast.Return, ast.Yield, ast.YieldFrom, ast.Nonlocal, ast.Global)) for s in body for n in ast.walk(s)):
        return None
    return [p.arg for p in a.args], body


def _helper_table(fn, module_tree, cls):
    """name -> ('fn'|'method', FunctionDef) of candidate helpers visible from fn."""
    tab = {}
    for st in module_tree.body:
        if isinstance(st, ast.FunctionDef) and st is not fn:
            tab[('fn', st.name)] = st
    if cls is not None:
        # methods of the class and, below them in precedence, of its base classes defined in the same module (self._helper() may be inherited)
        classes = {c.name: c for c in module_tree.body if isinstance(c, ast.ClassDef)}
        chain, seen, cur = [], set(), cls
        while cur is not None and cur.name not in seen:
            chain.append(cur)
            seen.add(cur.name)
            nxt = None
            for b in cur.bases:
                if isinstance(b, ast.Name) and b.id in classes:
                    nxt = classes[b.id]
                    break
            cur = nxt
        for c in reversed(chain):
            for st in c.body:
                if isinstance(st, ast.FunctionDef) and st is not fn:
                    tab[('method', st.name)] = st
    for st in ast.walk(fn):
        if isinstance(st, ast.FunctionDef) and st is not fn:
            tab[('fn', st.name)] = st
            st._closure = True
    return tab


def _inline(fn, module_tree, cls, depth=0, budget=None, only=None):
    if module_tree is None or depth > 2:
        return
    tab = _helper_table(fn, module_tree, cls)
    if only is not None:
        tab = {k: v for k, v in tab.items() if only(k[1])}
    if not tab:
        return
    prepared = {}

    def prep(key):
        if key not in prepared:
            h = clone(tab[key])
            prepared[key] = None  # recursion guard
            _normalise_body(h, module_tree, cls, depth + 1, rename=False)
            prepared[key] = h
        return prepared[key]

    outer = fn
    used_closures = set()
    caller_bound = _bindings(fn)

    # a call of an inlinable helper whose argument is neither a plain reference nor pure (`f(g(*a))`) cannot be inlined as it stands, while the
    # same call with the argument bound to a temporary first (`t = g(*a); f(t)`) can: hoist such arguments, so that both spellings meet
    hoisted = [0]
    for _o, _f, body in list(_blocks(fn)):
        i = 0
        while i < len(body):
            st = body[i]
            call = st.value if isinstance(st, (ast.Return, ast.Assign, ast.Expr)) and isinstance(getattr(st, 'value', None), ast.Call) else None
            if call is not None and not call.keywords and not any(isinstance(a, ast.Starred) for a in call.args) and isinstance(call.func, ast.Name) \
                    and ('fn', call.func.id) in tab and prep(('fn', call.func.id)) is not None and _single_return(prep(('fn', call.func.id))) is not None:
                pre = []
                ok = True
                for k, a in enumerate(call.args):
                    if _simple_arg(a) or _pure(a):
                        continue
                    if not all(_simple_arg(x) or _pure(x) for x in call.args[:k]) and pre == []:
                        ok = False
                        break
                    nm = f'_kv_h{hoisted[0]}'
                    hoisted[0] += 1
                    pre.append(ast.Assign(targets=[ast.Name(id=nm, ctx=ast.Store())], value=a))
                    call.args[k] = ast.Name(id=nm, ctx=ast.Load())
                if ok and pre:
                    for p_ in pre:
                        ast.copy_location(p_, st)
                        ast.fix_missing_locations(p_)
                    body[i:i] = pre
                    i += len(pre)
            i += 1
    caller_bound = _bindings(fn)

    class T(ast.NodeTransformer):
        def visit_FunctionDef(self, node):
            if node is outer:
                self.generic_visit(node)
            return node

        def visit_Call(self, node):
            self.generic_visit(node)
            if node.keywords or any(isinstance(a, ast.Starred) for a in node.args):
                return node
            key = recv = None
            if isinstance(node.func, ast.Name) and ('fn', node.func.id) in tab:
                key = ('fn', node.func.id)
            elif isinstance(node.func, ast.Attribute) and isinstance(node.func.value, ast.Name) and node.func.value.id == 'self' \
                    and ('method', node.func.attr) in tab and node.func.attr.startswith('_') and not node.func.attr.startswith('__'):
                key, recv = ('method', node.func.attr), node.func.value
            if key is None:
                return node
            h = prep(key)
            if h is None:
                return node
            sr = _single_return(h)
            if sr is None:
                return node
            params, expr = sr
            args = ([recv] if recv is not None else []) + list(node.args)
            if len(params) != len(args) or not all(_simple_arg(a) or _pure(a) for a in args):
                return node
            # free variables of a module-level helper keep their meaning only if not shadowed in the caller
            if not getattr(tab[key], '_closure', False):
                free = {n.id for n in ast.walk(expr) if isinstance(n, ast.Name)} - set(params)
                if free & set(caller_bound):
                    return node
            used_closures.add(key)
            return _subst(expr, dict(zip(params, args)))

    T().visit(fn)
    # procedure helpers called as a statement
    for _o, _f, body in list(_blocks(fn)):
        i = 0
        while i < len(body):
            st = body[i]
            if isinstance(st, ast.Expr) and isinstance(st.value, ast.Call) and not st.value.keywords:
                c = st.value
                key = recv = None
                if isinstance(c.func, ast.Name) and ('fn', c.func.id) in tab:
                    key = ('fn', c.func.id)
                elif isinstance(c.func, ast.Attribute) and isinstance(c.func.value, ast.Name) and c.func.value.id == 'self' \
                        and ('method', c.func.attr) in tab and c.func.attr.startswith('_') and not c.func.attr.startswith('__'):
                    key, recv = ('method', c.func.attr), c.func.value
                if key is not None:
                    h = prep(key)
                    pr = _procedure(h) if h is not None else None
                    args = ([recv] if recv is not None else []) + list(c.args)
                    if pr and len(pr[0]) == len(args) and all(_simple_arg(a) for a in args):
                        params, hb = pr
                        locs = set()
                        for s in hb:
                            locs |= _writes(s)[0]
                        locs -= set(params)
                        m = dict(zip(params, args))
                        m.update({n: ast.Name(id=f'{key[1]}__{n}', ctx=ast.Load()) for n in locs})
                        new = []
                        for s in hb:
                            s2 = _subst(s, m)
                            for n in ast.walk(s2):
                                if isinstance(n, ast.Name) and isinstance(n.ctx, ast.Store) and n.id in locs:
                                    n.id = f'{key[1]}__{n.id}'
                            new.append(s2)
                        body[i:i + 1] = new
                        used_closures.add(key)
                        i += len(new)
                        continue
            i += 1
    # a call of a helper whose body is straight-line code ending in its only `return`, anywhere in a simple statement whose
    # other parts have no effects: the helper's statements are placed before the statement, the call becomes the returned expression
    def helper_key(call):
        if call.keywords or any(isinstance(x, ast.Starred) for x in call.args):
            return None, None
        if isinstance(call.func, ast.Name) and ('fn', call.func.id) in tab:
            return ('fn', call.func.id), None
        if isinstance(call.func, ast.Attribute) and isinstance(call.func.value, ast.Name) and call.func.value.id == 'self' \
                and ('method', call.func.attr) in tab and call.func.attr.startswith('_') and not call.func.attr.startswith('__'):
            return ('method', call.func.attr), call.func.value
        return None, None

    serial = [0]
    for _o, _f, body in list(_blocks(fn)):
        i = 0
        while i < len(body):
            st = body[i]
            if not isinstance(st, (ast.Assign, ast.Return, ast.Expr, ast.AugAssign)) or getattr(st, 'value', None) is None:
                i += 1
                continue
            cands = []
            for n in ast.walk(st.value):
                if isinstance(n, ast.Call):
                    k, r = helper_key(n)
                    if k is not None:
                        cands.append((n, k, r))
            if len(cands) != 1:
                i += 1
                continue
            call, key, recv = cands[0]
            others_ok = all(_noeffect(n) or n is call for n in ast.walk(st.value) if isinstance(n, ast.Call))
            # the helper's statements are placed in front of the statement: sound only if the call is evaluated exactly once and unconditionally there -
            # not inside a comprehension / generator / lambda (it may refer to their variables, and runs per item), a conditional expression arm or a
            # short-circuited operand
            def _once(root, target):
                if root is target:
                    return True
                if isinstance(root, (ast.ListComp, ast.SetComp, ast.DictComp, ast.GeneratorExp, ast.Lambda)):
                    return False
                if isinstance(root, ast.IfExp):
                    return _once(root.test, target) if any(n is target for n in ast.walk(root.test)) else False
                if isinstance(root, ast.BoolOp):
                    return _once(root.values[0], target) if any(n is target for n in ast.walk(root.values[0])) else False
                for ch in ast.iter_child_nodes(root):
                    if any(n is target for n in ast.walk(ch)):
                        return _once(ch, target)
                return False
            others_ok = others_ok and _once(st.value, call)
            h = prep(key)
            done = False
            if others_ok and h is not None and _single_return(h) is None:
                a = h.args
                hb = _strip_doc(h.body)
                rets = [n for s2 in hb for n in ast.walk(s2) if isinstance(n, ast.Return)]
                args = ([recv] if recv is not None else []) + list(call.args)
                if not (a.vararg or a.kwarg or a.kwonlyargs or a.defaults or _opaque_decorators(h)) and len(rets) == 1 and rets[0] is hb[-1] \
                        and rets[0].value is not None and len(a.args) == len(args) and all(_simple_arg(x) or _pure(x) for x in args) \
                        and not any(isinstance(n, (ast.Yield, ast.YieldFrom, ast.Global, ast.Nonlocal, ast.FunctionDef)) for s2 in hb for n in ast.walk(s2)):
                    params = [x.arg for x in a.args]
                    locs = set()
                    for s2 in hb:
                        locs |= _writes(s2)[0]
                    rebound = locs & set(params)          # parameters the helper re-binds are its locals, initialised from the argument
                    locs -= set(params)
                    free = {n.id for s2 in hb for n in ast.walk(s2) if isinstance(n, ast.Name)} - set(params) - locs
                    if getattr(tab[key], '_closure', False) or not (free & set(caller_bound)):
                        serial[0] += 1
                        pre = f'{key[1]}__{serial[0]}__'
                        m = {p_: a_ for p_, a_ in zip(params, args) if p_ not in rebound}
                        m.update({n: ast.Name(id=pre + n, ctx=ast.Load()) for n in locs | rebound})
                        new = [ast.Assign(targets=[ast.Name(id=pre + p_, ctx=ast.Store())], value=a_, lineno=getattr(st, 'lineno', 0))
                               for p_, a_ in zip(params, args) if p_ in rebound]
                        for s2 in hb[:-1]:
                            s3 = _subst(s2, m)
                            for n in ast.walk(s3):
                                if isinstance(n, ast.Name) and isinstance(n.ctx, ast.Store) and n.id in (locs | rebound):
                                    n.id = pre + n.id
                            new.append(s3)
                        rv = _subst(hb[-1].value, m)
                        for n in ast.walk(rv):       # binding occurrences inside the returned expression (comprehension variables, walrus targets)
                            if isinstance(n, ast.Name) and isinstance(n.ctx, ast.Store) and n.id in (locs | rebound):
                                n.id = pre + n.id
                        if st.value is call:
                            st.value = rv
                        else:
                            for par in ast.walk(st.value):
                                for f2, v2 in ast.iter_fields(par):
                                    if v2 is call:
                                        setattr(par, f2, rv)
                                    elif isinstance(v2, list):
                                        for k2, x2 in enumerate(v2):
                                            if x2 is call:
                                                v2[k2] = rv
                        body[i:i] = new
                        used_closures.add(key)
                        i += len(new) + 1
                        done = True
            if not done:
                i += 1
    # drop closures that are no longer referenced
    for _o, _f, body in list(_blocks(fn)):
        for st in list(body):
            if isinstance(st, ast.FunctionDef) and ('fn', st.name) in used_closures:
                still = any(isinstance(n, ast.Name) and n.id == st.name for n in ast.walk(fn))
                if not still:
                    body.remove(st)
                    if not body:
                        body.append(ast.Pass())


# --------------------------------------------------------------------------------------------- live-range splitting

def _split_ranges(top):
    for scope in _scopes(top):
        _split_ranges_scope(scope)


def _split_ranges_scope(fn):
    """A local bound several times by plain `t = expr` statements or as a for-loop variable, every read of which has
    exactly one reaching binding (found by walking up the enclosing blocks; any doubt - a binding inside a preceding
    compound statement, a loop carried value, try/with, closures - leaves the name alone), is split into one name per
    binding."""
    parent = {}
    for p in [fn] + list(_own_walk(fn)):
        if p is not fn and isinstance(p, (ast.FunctionDef, ast.Lambda)):
            continue
        for c in ast.iter_child_nodes(p):
            parent[c] = p
    where = {}
    for owner, field, body in _own_blocks(fn):
        for i, st in enumerate(body):
            where[st] = (owner, field, body, i)
    plain, other = {}, set(_closure_names(fn))
    fordef = {}
    for n in _own_walk(fn):
        if isinstance(n, ast.Name) and isinstance(n.ctx, (ast.Store, ast.Del)):
            p = parent.get(n)
            q = parent.get(p) if isinstance(p, ast.Tuple) else None
            if isinstance(p, ast.Assign) and len(p.targets) == 1 and p.targets[0] is n and p in where:
                plain.setdefault(n.id, []).append(p)
            elif isinstance(p, ast.For) and p.target is n:
                plain.setdefault(n.id, []).append(p)
                fordef[p, n.id] = n
            elif isinstance(q, ast.For) and q.target is p:
                plain.setdefault(n.id, []).append(q)
                fordef[q, n.id] = n
            else:
                other.add(n.id)
        elif isinstance(n, ast.AugAssign) and isinstance(n.target, ast.Name):
            other.add(n.target.id)
        elif isinstance(n, (ast.Global, ast.Nonlocal)):
            other.update(n.names)
        elif isinstance(n, (ast.FunctionDef, ast.ClassDef)):
            other.add(n.name)
    params = {a.arg for a in fn.args.args + fn.args.kwonlyargs + fn.args.posonlyargs + [x for x in (fn.args.vararg, fn.args.kwarg) if x]}
    for pn in params:      # a parameter has one more binding: the function entry (it keeps the parameter's name)
        if pn in plain and pn not in other:
            plain[pn] = ['ENTRY'] + plain[pn]
        else:
            other.add(pn)

    def binds(st, t):
        for n in ast.walk(st):
            if isinstance(n, ast.Name) and n.id == t and isinstance(n.ctx, (ast.Store, ast.Del)):
                return True
        return False

    def reaching(u, t):
        s = u
        while s not in where:
            s = parent.get(s)
            if s is None:
                return None
        if isinstance(s, ast.While) and binds(s, t):
            return None
        if isinstance(s, ast.For) and (s, t) in fordef and not any(n is u for n in ast.walk(s.iter)):
            return None  # a read in the loop header other than the iterable
        while True:
            owner, field, body, idx = where[s]
            for prev in reversed(body[:idx]):
                if isinstance(prev, ast.Assign) and prev in plain.get(t, ()):
                    return prev
                if binds(prev, t):
                    return None
            if owner is fn:
                return 'ENTRY' if t in params else None
            if isinstance(owner, ast.For) and field == 'body' and (owner, t) in fordef:
                return owner
            if isinstance(owner, (ast.For, ast.While)) and binds(owner, t):
                return None
            if not isinstance(owner, (ast.For, ast.While, ast.If)):
                return None
            if isinstance(owner, (ast.For, ast.While)) and field == 'orelse':
                return None
            s = owner
            if s not in where:
                return None

    for t, defs in plain.items():
        if t in other or len(defs) < 2:
            continue
        loads = [n for n in _own_walk(fn) if isinstance(n, ast.Name) and n.id == t and isinstance(n.ctx, ast.Load)]
        assign = {}
        ok = True
        for u in loads:
            d = reaching(u, t)
            if d is None:
                ok = False
                break
            assign[u] = d
        if not ok:
            continue
        newname = {}
        for k, d in enumerate(defs):
            if d == 'ENTRY':
                newname[d] = t
                continue
            newname[d] = f'{t}__{k}'
            if isinstance(d, ast.Assign):
                d.targets[0].id = newname[d]
            else:
                fordef[d, t].id = newname[d]
        for u, d in assign.items():
            u.id = newname[d]


# --------------------------------------------------------------------------------------------- copy propagation

def _bindings(fn):
    """name -> number of binding occurrences (any kind) in fn, nested scopes included."""
    cnt = {}
    for n in ast.walk(fn):
        if isinstance(n, ast.Name) and isinstance(n.ctx, (ast.Store, ast.Del)):
            cnt[n.id] = cnt.get(n.id, 0) + 1
        elif isinstance(n, (ast.FunctionDef, ast.ClassDef)) and n is not fn:
            cnt[n.name] = cnt.get(n.name, 0) + 1
        elif isinstance(n, ast.arg):
            cnt[n.arg] = cnt.get(n.arg, 0) + 2
        elif isinstance(n, (ast.Global, ast.Nonlocal)):
            for x in n.names:
                cnt[x] = cnt.get(x, 0) + 2
        elif isinstance(n, ast.ExceptHandler) and n.name:
            cnt[n.name] = cnt.get(n.name, 0) + 2
        elif isinstance(n, ast.alias):
            nm = (n.asname or n.name).split('.')[0]
            cnt[nm] = cnt.get(nm, 0) + 2
    return cnt


def _list_use_ok(fn, name):
    """A list literal may be propagated if the name is only iterated / indexed by a constant / passed to any, all, len."""
    par = {}
    for p in ast.walk(fn):
        for c in ast.iter_child_nodes(p):
            par[c] = p
    for n in ast.walk(fn):
        if isinstance(n, ast.Name) and n.id == name and isinstance(n.ctx, ast.Load):
            p = par.get(n)
            if isinstance(p, ast.For) and p.iter is n:
                continue
            if isinstance(p, ast.comprehension) and p.iter is n:
                continue
            if isinstance(p, ast.Call) and isinstance(p.func, ast.Name) and p.func.id in ('any', 'all', 'len', 'tuple', 'sum', 'max', 'min') and n in p.args:
                continue
            if isinstance(p, ast.Subscript) and p.value is n and isinstance(p.slice, ast.Constant) and isinstance(p.ctx, ast.Load):
                continue
            return False
    return True


def _binds_name(st, t):
    for n in ast.walk(st):
        if isinstance(n, ast.Name) and n.id == t and isinstance(n.ctx, (ast.Store, ast.Del)):
            return True
        if isinstance(n, (ast.FunctionDef, ast.ClassDef)) and n.name == t:
            return True
    return False


def _copyprop(top, only=None):
    for scope in _scopes(top):
        _copyprop_scope(scope, only)


def _copyprop_scope(fn, only=None):
    """Forward substitution of `t = <pure expr>` into the reads of t that follow in the same block, up to the next
    statement that re-binds t, as long as nothing the expression reads is written in between. The binding itself is
    dropped when no read of t is left anywhere in the function."""
    changed = True
    rounds = 0
    special = set(_closure_names(fn))  # names touched by closures are left alone
    for n in _own_walk(fn):
        if isinstance(n, (ast.Global, ast.Nonlocal)):
            special.update(n.names)
    for a in fn.args.args + fn.args.kwonlyargs + fn.args.posonlyargs + [x for x in (fn.args.vararg, fn.args.kwarg) if x]:
        special.add(a.arg)
    while changed and rounds < 2000:
        changed = False
        rounds += 1
        local_fns = {n.name for n in _own_walk(fn) if isinstance(n, ast.FunctionDef)}
        for _o, _f, body in list(_own_blocks(fn)):
            for i, st in enumerate(body):
                if not (isinstance(st, ast.Assign) and len(st.targets) == 1 and isinstance(st.targets[0], ast.Name)):
                    continue
                t = st.targets[0].id
                if t in special or getattr(st, '_cp_done', False) or (only is not None and not only(t)):
                    continue
                if any(isinstance(n, ast.Name) and n.id == t for n in ast.walk(st.value)):
                    continue  # t = f(t)
                if not _pure(st.value, allow_list=True):
                    # a fresh value (list, comprehension, result of an effect-free call) may move to its single use
                    if not _movable(st.value):
                        continue
                    lds = [n for n in _own_walk(fn) if isinstance(n, ast.Name) and n.id == t and isinstance(n.ctx, ast.Load)]
                    recv = [n for n in _own_walk(fn) if isinstance(n, (ast.Attribute, ast.Subscript)) and isinstance(n.value, ast.Name) and n.value.id == t
                            and isinstance(getattr(n, 'ctx', None), (ast.Store, ast.Del))]
                    recv += [n for n in _own_walk(fn) if isinstance(n, ast.Call) and isinstance(n.func, ast.Attribute) and isinstance(n.func.value, ast.Name)
                             and n.func.value.id == t and not _noeffect(n)]
                    in_loop = [n for s2 in body[i + 1:] if isinstance(s2, (ast.For, ast.While)) for n in ast.walk(s2) if isinstance(n, ast.Name) and n.id == t]
                    if len(lds) != 1 or recv or in_loop:
                        continue
                elif isinstance(st.value, ast.List) and not _list_use_ok(fn, t):
                    continue
                rest = body[i + 1:]
                done = 0
                # `t = X[c]` whose every use is `t[...]`: t is a view of / reference into X, not a copied scalar, so what a use
                # sees is X's content at the time of the use in both spellings; only re-binding of the names involved matters
                all_t = [n for n in _own_walk(fn) if isinstance(n, ast.Name) and n.id == t and isinstance(n.ctx, ast.Load)]
                sub_bases = {id(n.value) for n in _own_walk(fn) if isinstance(n, ast.Subscript) and isinstance(n.value, ast.Name) and n.value.id == t}
                view_like = isinstance(st.value, ast.Subscript) and isinstance(st.value.slice, ast.Constant) and type(st.value.slice.value) is int \
                    and isinstance(st.value.value, ast.Attribute) and bool(all_t) and all(id(n) in sub_bases for n in all_t)
                def blocked(stmts_):
                    return _interferes(st.value, stmts_, local_fns) and not (view_like and not _interferes_names(st.value, stmts_))

                def prop_into(stmts_):
                    """substitute reads of t along the statement list; returns (number of statements changed, may continue after)"""
                    n_done = 0
                    for k, s in enumerate(stmts_):
                        uses = [n for n in ast.walk(s) if isinstance(n, ast.Name) and n.id == t and isinstance(n.ctx, ast.Load)]
                        rebinding = _binds_name(s, t)
                        simple = isinstance(s, (ast.Assign, ast.AugAssign, ast.Expr, ast.Return, ast.AnnAssign, ast.Assert, ast.Delete, ast.Pass, ast.Break, ast.Continue, ast.Raise))
                        if simple:
                            if isinstance(s, ast.AugAssign) and isinstance(s.target, ast.Name) and s.target.id == t:
                                return n_done, False
                            if uses:
                                # a simple statement evaluates its reads before its own stores (several targets: the value first)
                                stmts_[k] = _Subst({t: st.value}).visit(s)
                                n_done += 1
                            if rebinding or blocked([s]):
                                return n_done, False
                        elif isinstance(s, ast.If):
                            if blocked([ast.Expr(value=s.test)]):
                                return n_done, False
                            if any(isinstance(n, ast.Name) and n.id == t for n in ast.walk(s.test)):
                                s.test = _Subst({t: st.value}).visit(s.test)
                                n_done += 1
                            d1, c1 = prop_into(s.body)
                            d2, c2 = prop_into(s.orelse)
                            n_done += d1 + d2
                            if not (c1 and c2):
                                return n_done, False
                        elif isinstance(s, (ast.For, ast.While)):
                            if rebinding or blocked([s]):
                                return n_done, False      # a later iteration could see the write: leave the loop alone
                            if uses:
                                stmts_[k] = _Subst({t: st.value}).visit(s)
                                n_done += 1
                        else:
                            if uses or rebinding or blocked([s]):
                                return n_done, False
                    return n_done, True
                done, _cont = prop_into(rest)
                st._cp_done = True
                if done:
                    body[i + 1:] = rest
                    changed = True
                    break
            if changed:
                break
    # bindings of names that are never read: pure ones are dropped (also self-updates `x op= pure`)
    again = True
    while again:
        again = False
        own = set()
        for n in _own_walk(fn):  # reads of t inside `t = f(t)` / `t op= e` keep nothing alive
            if isinstance(n, ast.Assign) and len(n.targets) == 1 and isinstance(n.targets[0], ast.Name):
                own.update(id(m) for m in ast.walk(n.value) if isinstance(m, ast.Name) and m.id == n.targets[0].id)
        read = {n.id for n in _own_walk(fn) if isinstance(n, ast.Name) and isinstance(n.ctx, ast.Load) and id(n) not in own}
        for _o, _f, body in list(_own_blocks(fn)):
            for st in list(body):
                t = None
                if isinstance(st, ast.Assign) and len(st.targets) == 1 and isinstance(st.targets[0], ast.Name) and (_pure(st.value, True) or _movable(st.value)):
                    t = st.targets[0].id
                elif isinstance(st, ast.AugAssign) and isinstance(st.target, ast.Name) and _pure(st.value):
                    t = st.target.id
                if t is not None and t not in read and t not in special and (only is None or only(t)):
                    body.remove(st)
                    if not body:
                        body.append(ast.Pass())
                    again = True


# --------------------------------------------------------------------------------------------- statement order

def _effects(st):
    rn, rp, bare = set(), set(), set()
    for n in ast.walk(st):
        if isinstance(n, ast.Name) and isinstance(n.ctx, ast.Load):
            rn.add(n.id)
        if isinstance(n, (ast.Attribute, ast.Subscript)) and isinstance(n.ctx, ast.Load):
            p = _path(n)
            if p:
                rp.add(p)
    wn, wp, wc = _writes(st)
    if isinstance(st, ast.AugAssign):
        p = _path(st.target)
        if p and len(p) > 1 or isinstance(st.target, ast.Subscript):
            rp.add(p)
    impure = any(isinstance(n, ast.Call) and not _noeffect(n) for n in ast.walk(st))
    cp = {p for p in wc if p[0] != '<fn>'}
    return rn, rp, wn, wp | cp, impure


def _independent(a, b):
    ra, pa, wa, wpa, ia = _effects(a)
    rb, pb, wb, wpb, ib = _effects(b)
    if ia and ib:
        return False
    if wa & (rb | wb) or wb & ra:
        return False
    for p in wpa:
        if any(_prefix(p, q) for q in pb | wpb) or (len(p) == 1 and p[0] in rb):
            return False
    for p in wpb:
        if any(_prefix(p, q) for q in pa) or (len(p) == 1 and p[0] in ra):
            return False
    return True


def _sort_arms(fn):
    """if/elif chains that compare one expression with pairwise different constants (literals or upper-case names):
    the arms exclude one another, so their order is immaterial; they are sorted by constant."""
    seen = set()
    for n in ast.walk(fn):
        if not isinstance(n, ast.If) or id(n) in seen:
            continue
        arms, cur = [], n
        while True:
            seen.add(id(cur))
            arms.append(cur)
            if len(cur.orelse) == 1 and isinstance(cur.orelse[0], ast.If):
                cur = cur.orelse[0]
            else:
                break
        if len(arms) < 3:
            continue
        tail = arms[-1].orelse
        keys = []
        subj = None
        ok = True
        for a in arms:
            t = a.test
            if not (isinstance(t, ast.Compare) and len(t.ops) == 1 and isinstance(t.ops[0], ast.Eq)):
                ok = False
                break
            sides = [t.left, t.comparators[0]]
            const = [x for x in sides if isinstance(x, ast.Constant) or (isinstance(x, (ast.Name, ast.Attribute)) and _txt(x).split('.')[-1].isupper())]
            if len(const) != 1:
                ok = False
                break
            other = sides[1] if const[0] is sides[0] else sides[0]
            if subj is None:
                subj = _txt(other)
            if _txt(other) != subj or not _pure(other):
                ok = False
                break
            keys.append(_txt(const[0]))
        if not ok or len(set(keys)) != len(keys):
            continue
        order = sorted(range(len(arms)), key=lambda k: keys[k])
        tests = [arms[k].test for k in order]
        bodies = [arms[k].body for k in order]
        for a, t, b in zip(arms, tests, bodies):
            a.test, a.body = t, b
        arms[-1].orelse = tail


_LOCAL_RE = re.compile(r'\bv\d+\b')


def _anon_key(st):
    """Sort key that does not depend on how the locals are numbered (they are named v<k> by _alpha, in order of first occurrence - which the
    order of the statements being sorted would otherwise feed back into): the text with every local anonymised first, the full text second."""
    t = _txt(st)
    return (_LOCAL_RE.sub('_', t), t)


def _sort_independent(fn):
    """Adjacent simple statements without any dependence between them are put into text order."""
    for _o, _f, body in list(_blocks(fn)):
        n = len(body)
        for _ in range(n):
            swapped = False
            for i in range(n - 1):
                a, b = body[i], body[i + 1]
                if isinstance(a, (ast.Assign, ast.AugAssign)) and isinstance(b, (ast.Assign, ast.AugAssign)) \
                        and _anon_key(a) > _anon_key(b) and _independent(a, b):
                    body[i], body[i + 1] = b, a
                    swapped = True
            if not swapped:
                break


# --------------------------------------------------------------------------------------------- commutativity

def _numeric_looking(e):
    if isinstance(e, ast.Constant):
        return isinstance(e.value, (int, float)) and not isinstance(e.value, bool)
    if isinstance(e, ast.Compare):
        return True
    if isinstance(e, ast.BinOp) and isinstance(e.op, (ast.Mult, ast.LShift, ast.RShift, ast.BitAnd, ast.BitOr, ast.BitXor, ast.FloorDiv, ast.Sub)):
        return True
    if isinstance(e, ast.BinOp) and isinstance(e.op, ast.Add):
        return _numeric_looking(e.left) and _numeric_looking(e.right)
    if isinstance(e, ast.UnaryOp) and isinstance(e.op, (ast.USub, ast.Invert)):
        return True
    return False


class _Commute(ast.NodeTransformer):
    def _chain(self, e, op):
        if isinstance(e, ast.BinOp) and isinstance(e.op, op):
            return self._chain(e.left, op) + self._chain(e.right, op)
        return [e]

    def visit_BinOp(self, node):
        self.generic_visit(node)
        for op in (ast.BitAnd, ast.BitOr, ast.BitXor, ast.Mult, ast.Add):
            if isinstance(node.op, op):
                ops = self._chain(node, op)
                if op is ast.Add and not all(_numeric_looking(x) for x in ops):
                    return node
                if op is ast.Mult and len(ops) != 2:
                    return node
                ops = sorted(ops, key=_txt)
                r = ops[0]
                for x in ops[1:]:
                    r = ast.BinOp(left=r, op=op(), right=x)
                return r
        return node

    def visit_Compare(self, node):
        self.generic_visit(node)
        if len(node.ops) == 1 and isinstance(node.ops[0], (ast.Eq, ast.NotEq)):
            a, b = sorted([node.left, node.comparators[0]], key=_txt)
            node.left, node.comparators = a, [b]
        elif len(node.ops) == 1 and isinstance(node.ops[0], (ast.Lt, ast.Gt, ast.LtE, ast.GtE)):
            l, r = node.left, node.comparators[0]
            # `a - b > 0` is `a > b` (exact for integers and for IEEE floats)
            if isinstance(r, ast.Constant) and r.value == 0 and type(r.value) is int and isinstance(l, ast.BinOp) and isinstance(l.op, ast.Sub):
                l, r = l.left, l.right
            flip = {ast.Lt: ast.Gt, ast.Gt: ast.Lt, ast.LtE: ast.GtE, ast.GtE: ast.LtE}
            op = node.ops[0]
            if _txt(l) > _txt(r):      # one orientation: smaller text on the left
                l, r, op = r, l, flip[type(op)]()
            node.left, node.ops, node.comparators = l, [op], [r]
        return node

    def visit_Call(self, node):
        self.generic_visit(node)
        if isinstance(node.func, ast.Name) and node.func.id == 'len' and len(node.args) == 1 and not node.keywords \
                and isinstance(node.args[0], ast.Attribute) and node.args[0].attr == 'shape':
            return ast.Attribute(value=node.args[0].value, attr='ndim', ctx=ast.Load())   # len(a.shape) is a.ndim
        if isinstance(node.func, ast.Attribute) and node.func.attr == 'reshape' and not node.keywords and len(node.args) >= 2 \
                and isinstance(node.args[0], ast.Starred) and isinstance(node.args[0].value, ast.Attribute) and node.args[0].value.attr == 'shape' \
                and not any(isinstance(a_, ast.Starred) for a_ in node.args[1:]):
            # x.reshape(*a.shape, n, ...) is x.reshape(a.shape + (n, ...)): ndarray.reshape takes the new shape as separate arguments or as one tuple
            node.args = [ast.BinOp(left=node.args[0].value, op=ast.Add(), right=ast.Tuple(elts=list(node.args[1:]), ctx=ast.Load()))]
        return node


# --------------------------------------------------------------------------------------------- alpha renaming

def _alpha(fn):
    keep = {a.arg for a in fn.args.args + fn.args.kwonlyargs + fn.args.posonlyargs}
    for a in (fn.args.vararg, fn.args.kwarg):
        if a:
            keep.add(a.arg)
    bound = set()
    for n in ast.walk(fn):
        if isinstance(n, ast.Name) and isinstance(n.ctx, (ast.Store, ast.Del)):
            bound.add(n.id)
        elif isinstance(n, ast.FunctionDef) and n is not fn:
            bound.add(n.name)
            for a in n.args.args:
                bound.add(a.arg)
        elif isinstance(n, ast.Lambda):
            for a in n.args.args:
                bound.add(a.arg)
        elif isinstance(n, (ast.Global, ast.Nonlocal)):
            keep.update(n.names)
        elif isinstance(n, ast.ExceptHandler) and n.name:
            keep.add(n.name)
    bound -= keep
    order = {}

    def visit(n):
        if isinstance(n, ast.Name) and n.id in bound and n.id not in order:
            order[n.id] = f'v{len(order)}'
        if isinstance(n, ast.FunctionDef) and n is not fn and n.name in bound and n.name not in order:
            order[n.name] = f'v{len(order)}'
        if isinstance(n, ast.arg) and n.arg in bound and n.arg not in order:
            order[n.arg] = f'v{len(order)}'
        # evaluation order: value before targets for assignments, iter before target for loops
        if isinstance(n, ast.Assign):
            visit(n.value)
            for t in n.targets:
                visit(t)
            return
        if isinstance(n, (ast.For, ast.comprehension)):
            visit(n.iter)
            visit(n.target)
            for f in ('ifs', 'body', 'orelse'):
                for c in getattr(n, f, []) or []:
                    visit(c)
            return
        if isinstance(n, (ast.ListComp, ast.SetComp, ast.GeneratorExp)):
            for g in n.generators:
                visit(g)
            visit(n.elt)
            return
        if isinstance(n, ast.DictComp):
            for g in n.generators:
                visit(g)
            visit(n.key)
            visit(n.value)
            return
        for c in ast.iter_child_nodes(n):
            visit(c)
    for st in fn.body:
        visit(st)
    for n in ast.walk(fn):
        if isinstance(n, ast.Name) and n.id in order:
            n.id = order[n.id]
        elif isinstance(n, ast.FunctionDef) and n is not fn and n.name in order:
            n.name = order[n.name]
        elif isinstance(n, ast.arg) and n.arg in order and n not in fn.args.args:
            n.arg = order[n.arg]


# --------------------------------------------------------------------------------------------- driver

def _normalise_body(fn, module_tree, cls, depth=0, rename=True):
    for n in ast.walk(fn):
        if isinstance(n, (ast.FunctionDef, ast.ClassDef)):
            n.body = _strip_doc(n.body)
            if isinstance(n, ast.FunctionDef):
                n.returns = None
                for a in n.args.args + n.args.kwonlyargs:
                    a.annotation = None
    for n in ast.walk(fn):
        for f in ('body', 'orelse'):
            b = getattr(n, f, None)
            if isinstance(b, list) and b and isinstance(b[0], ast.stmt):
                for k, s in enumerate(b):
                    if isinstance(s, ast.AnnAssign) and s.value is not None and s.simple:
                        b[k] = ast.Assign(targets=[s.target], value=s.value, lineno=s.lineno)
    from . import canon2
    global _INT_NAMES, _INT_ATTRS
    _INT_ATTRS = _collect_int_attrs(cls)
    canon2.scope_comprehensions(fn)
    for _ in range(3):
        before = ast.dump(fn)
        _INT_NAMES = _collect_int_names(fn)
        _inline(fn, module_tree, cls, depth)
        canon2.module_constants(fn, module_tree)
        canon2.truth_and_idioms(fn)
        canon2.param_single_branch(fn)
        _split_tuples(fn)
        _AugNorm(_scalar_names(fn)).visit(fn)
        _split_ranges(fn)
        _copyprop(fn)
        _unroll(fn)
        _copyprop(fn)
        canon2.exits_to_else(fn)
        canon2.default_to_else(fn)
        canon2.attr_forward(fn)
        canon2.adjacent_single_use(fn)
        canon2.sink_into_arms(fn)
        canon2.for_over_listcomp(fn)
        _guards(fn)
        canon2.cond_rebind(fn)
        _comprehensions(fn)
        canon2.orient(fn)
        if rename:
            _alpha(fn)  # the text-keyed sorts below must not depend on the names the author chose
        fn2 = _Commute().visit(fn)
        assert fn2 is fn
        _sort_independent(fn)
        _sort_arms(fn)
        ast.fix_missing_locations(fn)
        if ast.dump(fn) == before:
            break
    if rename:
        _alpha(fn)
    ast.fix_missing_locations(fn)


def directed(fn, ref_fn, module_tree, ref_tree, cls, ref_cls):
    """Normalisation *towards the reference*: a clone of fn (line numbers kept) in which only what the reference function
    does not have is rewritten - helpers that do not exist in the reference are inlined, locals the reference function
    does not bind are forward-substituted, and each structural rewrite that leaves the reference function itself
    unchanged is applied. The rules then see code in the idiom they were written for; semantics are unchanged."""
    f = clone(fn)
    r = clone(ref_fn)
    ref_names = set(_bindings(r))
    ref_funcs = {st.name for st in ref_tree.body if isinstance(st, ast.FunctionDef)}
    if ref_cls is not None:
        ref_funcs |= {st.name for st in ref_cls.body if isinstance(st, ast.FunctionDef)}
    ref_funcs |= {n.name for n in ast.walk(r) if isinstance(n, ast.FunctionDef)}
    mt = ast.Module(body=[x for x in module_tree.body if x is not fn], type_ignores=[])
    c = None
    if cls is not None:
        c = ast.ClassDef(name=cls.name, bases=list(cls.bases), keywords=[], body=[x for x in cls.body if x is not fn], decorator_list=[])

    def free(p):
        t = clone(ref_fn)
        before = ast.dump(t)
        p(t)
        return ast.dump(t) == before

    ref_stmts = set()
    for n in ast.walk(r):
        if isinstance(n, ast.stmt):
            ref_stmts.add(ast.dump(n))
        elif isinstance(n, ast.expr):
            ref_stmts.add(ast.dump(n))

    def score(t):
        """how much of t is literally reference code: statements and expressions (weighted by size) found in the reference"""
        sc = 0
        for n in ast.walk(t):
            if isinstance(n, (ast.stmt, ast.expr)) and ast.dump(n) in ref_stmts:
                sc += 1
        return sc

    passes = [_split_tuples, lambda x: _AugNorm(_scalar_names(x)).visit(x), _unroll, _guards, lambda x: _Commute().visit(x)]
    steps = [lambda x: _inline(x, mt, c, only=lambda name: name not in ref_funcs),
             lambda x: _copyprop(x, only=lambda name: name not in ref_names)]
    for _ in range(2):
        for k, p in enumerate(steps + passes + steps[1:]):
            structural = len(steps) <= k < len(steps) + len(passes)
            if structural and not free(p):
                continue
            t = clone(f)
            p(t)
            ast.fix_missing_locations(t)
            if ast.dump(t) == ast.dump(f):
                continue
            # keep a rewrite only if the result is closer to the reference text (structural rewrites: strictly closer)
            total_f = sum(1 for n in ast.walk(f) if isinstance(n, (ast.stmt, ast.expr)))
            total_t = sum(1 for n in ast.walk(t) if isinstance(n, (ast.stmt, ast.expr)))
            miss_f, miss_t = total_f - score(f), total_t - score(t)
            if miss_t < miss_f or (not structural and miss_t <= miss_f) or k == 0:  # k == 0: a helper the reference does not have is always inlined
                f = t
    ast.fix_missing_locations(f)
    return f


def canon_text(fn, module_tree=None, cls=None):
    """Normal-form text of function ``fn`` (a FunctionDef inside module_tree, method of ``cls`` or None)."""
    f = clone(fn)
    # helpers are looked up in the (un-copied) module tree; ``fn`` itself is excluded by name
    mt = module_tree
    c = cls
    if mt is not None:
        mt = ast.Module(body=[s for s in mt.body if s is not fn], type_ignores=[])
    if c is not None:
        c = ast.ClassDef(name=c.name, bases=list(c.bases), keywords=[], body=[s for s in c.body if s is not fn], decorator_list=[])
    _normalise_body(f, mt, c)
    return ast.unparse(f)
