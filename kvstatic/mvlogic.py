"""Code-derived truth tables of the multi-valued operators in logic.py and of the LogicSim dispatch
compositions (engine A applied)."""
from __future__ import annotations

import ast

from .core import Repo, ModelError, AnchorError, norm
from .fold import fold_module
from .tt import Interp, Arr, U8, P, View, operand_planes, planes_to_values, LaneViolation, ANY
from .astutil import attr_chain, is_name, call_name

LOGIC_CONSTS = ('ZERO', 'UNKNOWN', 'UNASSIGNED', 'ONE', 'PPULSE', 'RISE', 'FALL', 'NPULSE')


class Logic:
    def __init__(self, repo: Repo):
        self.mod = repo.mod('logic')
        env, self.nodes = fold_module(self.mod)
        self.consts = {k: env[k] for k in LOGIC_CONSTS if isinstance(env.get(k), int)}
        missing = [k for k in LOGIC_CONSTS if k not in self.consts]
        if missing:
            raise AnchorError(f'logic.py: value constants vanished or are not integer literals: {missing}')
        self.funcs = {name: f for name, f in self.mod.funcs.items() if '.' not in name}
        self._cache = {}

    def func(self, name):
        if name not in self.funcs:
            raise AnchorError(f'anchor vanished: logic.{name}')
        return self.funcs[name]

    # ---- bit-parallel operators
    def bp_table(self, fname, k, nplanes, alias=None, junk=0):
        """Per-row output values of logic.<fname>(out, in_0..in_{k-1}) over radix 2**nplanes.
        alias = j  ->  out is the same array object as operand j.
        junk selects the arbitrary previous content of `out` (0: zeros, 1: ones, 2: alternating)."""
        key = ('bp', fname, k, nplanes, alias, junk)
        if key in self._cache:
            return self._cache[key]
        radix = 1 << nplanes
        sp, planes = operand_planes(radix, k, nplanes)
        it = Interp(sp, funcs=self.funcs, consts=self.consts)
        ins = [Arr(planes[j], name=f'in{j}', prov=frozenset({j}) if alias is None else frozenset({ANY})) for j in range(k)]
        out = ins[alias] if alias is not None else Arr([0] * nplanes, name='out')
        if alias is None:
            out.p = [(0, sp.MASK, sp.MASK // 3)[junk] for _ in range(nplanes)]
        before = [list(a.p) for a in ins]
        ret = it.run(self.func(fname), [out] + ins)
        for j, a in enumerate(ins):
            if a is not out and list(a.p) != before[j]:
                from .tt import LaneViolation
                raise LaneViolation(f'logic.{fname} modifies its operand {j} in place: the caller\'s array (a signal of the simulator state, '
                                    f'possibly read again by another gate) is overwritten')
        res = planes_to_values(out.p, sp.nrows)
        self._cache[key] = (res, ret is out, it.steps)
        return self._cache[key]

    # ---- multi-valued (uint8) operators
    def mv_table(self, fname, k, junk=0):
        key = ('mv', fname, k, junk)
        if key in self._cache:
            return self._cache[key]
        sp, planes = operand_planes(8, k, 8)
        it = Interp(sp, funcs=self.funcs, consts=self.consts)
        ins = [U8(planes[j], frozenset({j})) for j in range(k)]
        out = U8([(0, sp.MASK, sp.MASK // 5)[junk]] * 8, frozenset({ANY}))   # np.empty(np.broadcast(...).shape): arbitrary content, full shape
        it.run(self.func(fname), [out] + ins)
        res = planes_to_values(out.b, sp.nrows)
        self._cache[key] = (res, it.steps)
        return self._cache[key]

    def mv_table_args(self, fname, k, junk=0):
        """Functions of the form f(a, b, out=None) that compute into out[...] (mv_transition, mv_latch):
        interpret the body after the `out = ...` allocation statement."""
        key = ('mvf', fname, k, junk)
        if key in self._cache:
            return self._cache[key]
        f = self.func(fname)
        sp, planes = operand_planes(8, k, 8)
        it = Interp(sp, funcs=self.funcs, consts=self.consts)
        env = {}
        params = [a.arg for a in f.args.args]
        if len(params) != k + 1 or params[-1] != 'out':
            raise ModelError(f'logic.{fname}: unexpected signature {params}')
        for j, p in enumerate(params[:-1]):
            env[p] = U8(planes[j], frozenset({j}))
        out = U8([(0, sp.MASK, sp.MASK // 5)[junk]] * 8, frozenset({ANY}))
        env['out'] = out
        from .astutil import body_no_doc
        body = body_no_doc(f)
        rest = []
        for st in body:
            if isinstance(st, (ast.Assign, ast.If)) and 'np.empty' in norm(st):
                continue   # the out= allocation idiom is checked by the out-discipline rule
            rest.append(st)
        r = it.exec_block(rest, env)
        res = planes_to_values(out.b, sp.nrows)
        self._cache[key] = (res, r is out, it.steps)
        return self._cache[key]


def run_branch(logic: Logic, body, m, outvar, invars, tvars, arr='self.c', junk=True):
    """Interpret one dispatch branch of the m-valued chain. Returns (per-row values of the output
    location over radix^4 rows, info dict)."""
    nplanes = {4: 2, 8: 3}[m]
    radix = 1 << nplanes
    sp, planes = operand_planes(radix, 4, nplanes)
    it = Interp(sp, funcs=logic.funcs, consts=logic.consts)
    store = {}
    for j, v in enumerate(invars):
        store[v] = Arr(planes[j], name=v)
    junkv = sp.MASK // 7
    store[outvar] = Arr([junkv] * nplanes, name=outvar)
    written = set()
    for t in tvars:
        store[t] = Arr([sp.MASK // 11] * nplanes, name=t)
    info = {'calls': [], 'read_before_write': [], 'temps': set()}

    class LocEnv(dict):
        pass

    def loc_of(node):
        """self.c[x] -> Arr of location x"""
        if isinstance(node, ast.Subscript) and attr_chain(node.value) == arr and isinstance(node.slice, ast.Name):
            nm = node.slice.id
            if nm in store:
                return nm
        if isinstance(node, ast.Name) and node.id in views:
            return views[node.id]
        return None

    views = {}   # local name -> location it is a view of (`scratch = self.c[t1]`)

    for st in body:
        if isinstance(st, ast.Expr) and isinstance(st.value, ast.Constant):
            continue
        if isinstance(st, ast.Assign) and len(st.targets) == 1 and isinstance(st.targets[0], ast.Name) and st.targets[0].id not in store \
                and isinstance(st.value, ast.Subscript) and loc_of(st.value) is not None:
            views[st.targets[0].id] = loc_of(st.value)   # basic indexing of an ndarray with an integer: a view
            continue
        if isinstance(st, ast.Assign) and len(st.targets) == 1:
            t, s = loc_of(st.targets[0]), loc_of(st.value)
            if t is not None and s is not None:
                if s in tvars and s not in written:
                    info['read_before_write'].append(s)
                store[t].p[:] = list(store[s].p)
                written.add(t)
                info['calls'].append(('copy', t, s))
                continue
            from .core import DefiniteShapeError
            raise DefiniteShapeError('comp', 'logic_sim', 'LogicSim.c_prop', norm(st)[:120],
                                     f'{m}-valued dispatch branch: `{norm(st)[:100]}` is not a call of a documented bit-parallel operator (logic.bp{m}v_*) nor a whole-location copy: '
                                     f'the branch is no longer a composition of the documented operators', getattr(st, 'lineno', 0))
        if isinstance(st, ast.Expr) and isinstance(st.value, ast.Call):
            c = st.value
            name = call_name(c) or ''
            short = name.split('.')[-1]
            if short not in logic.funcs or not name.startswith('logic.'):
                raise ModelError(f'{m}-valued branch: call {name} is not a logic.* operator')
            args = []
            for a in c.args:
                l = loc_of(a)
                if l is None:
                    raise ModelError(f'{m}-valued branch: argument {norm(a)} is not {arr}[<location>]')
                args.append(l)
            if not args:
                raise ModelError(f'{name}() without arguments')
            for a in args[1:]:
                if a in tvars and a not in written:
                    info['read_before_write'].append(a)
            info['calls'].append((short, args[0], tuple(args[1:])))
            for a in args:
                if a in tvars:
                    info['temps'].add(a)
            it.run(logic.func(short), [store[a] for a in args])
            written.add(args[0])
            continue
        if isinstance(st, ast.Pass):
            continue     # an arm that does nothing: the output keeps its previous content (the table comparison reports it)
        raise ModelError(f'{m}-valued branch: unrecognised statement {norm(st)[:80]}')
    res = planes_to_values(store[outvar].p, sp.nrows)
    info['steps'] = it.steps
    info['written'] = written
    return res, info
