"""kvstatic - static-analysis engines for the kyupy properties C01..C20.

Nothing in here imports kyupy. All engines read /repo/src/kyupy/*.py (or the
directory given by --root / KV_ROOT) as text, parse it with ``ast`` and decide
from the syntax tree, the folded constants and the embedded data tables.
"""
