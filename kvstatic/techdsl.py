"""Static reader for the cell-definition DSL embedded in techlib.py (engine E, DSL part).

The library text is folded from the source (string concatenation, .replace); it is split with the
regular expressions found in TechLib.__init__ itself, so reader and constructor cannot drift apart.
Nothing is imported from kyupy; bench.parse is not called.
"""
from __future__ import annotations

import ast
import re
from itertools import product

from .core import Repo, ModelError, AnchorError, norm
from .fold import fold_expr, fold_module, Unknown
from .astutil import find_all, attr_chain, call_name, is_name, target_names


class CellDef:
    def __init__(self, lib, raw_name, body, text):
        self.lib = lib
        self.raw_name = raw_name
        self.body = body
        self.text = text
        self.decl = []       # [(direction, name)] in statement order
        self.assigns = []    # [(target, kind, [args])]
        self.names = []      # expanded cell names
        self.errors = []

    @property
    def inputs_declared(self):
        return [n for d, n in self.decl if d == 'input']

    @property
    def outputs_declared(self):
        return [n for d, n in self.decl if d == 'output']


def constructor_facts(repo: Repo):
    """Regexes and steps of TechLib.__init__, extracted by role. Raises ModelError on unknown idioms."""
    mod = repo.mod('techlib')
    f = mod.func('TechLib.__init__')
    facts = {}
    for c in find_all(f, ast.Call):
        nm = call_name(c)
        if nm == 're.split' and len(c.args) == 2 and isinstance(c.args[0], ast.Constant):
            if norm(c.args[1]) == 'lib_src':
                facts['split_cells'] = c.args[0].value
            else:
                facts['split_braces'] = c.args[0].value
                facts['split_braces_arg'] = norm(c.args[1])
        elif nm == 're.sub' and len(c.args) == 3 and isinstance(c.args[0], ast.Constant):
            facts['strip'] = (c.args[0].value, fold_expr(c.args[1], {}, strict=False))
        elif isinstance(c.func, ast.Attribute) and c.func.attr == 'find' and len(c.args) == 1 and isinstance(c.args[0], ast.Constant):
            facts['name_sep'] = c.args[0].value
        elif nm == 'bench.parse':
            facts['bench_arg'] = norm(c.args[0]) if c.args else None
        elif nm == 'product':
            facts['product'] = norm(c)
        elif isinstance(c.func, ast.Attribute) and c.func.attr == 'eliminate_1to1_forks':
            facts['elim'] = True
    # the statements that turn one chunk of the library text into (name, body) are *evaluated* per chunk (Engine M)
    loop = next((l for l in find_all(f, ast.For) if isinstance(l.iter, ast.Call) and call_name(l.iter) == 're.split'
                 and len(l.iter.args) == 2 and norm(l.iter.args[1]) == 'lib_src' and isinstance(l.target, ast.Name)), None)
    if loop is not None:
        pre, parse_arg, name_expr = [], None, None
        for st in loop.body:
            calls = [c for c in find_all(st, ast.Call) if call_name(c) == 'bench.parse']
            if calls and parse_arg is None:
                parse_arg = calls[0].args[0] if calls[0].args else None
                continue
            if parse_arg is None:
                pre.append(st)
            elif isinstance(st, ast.Assign) and len(st.targets) == 1 and norm(st.targets[0]) == 'c.name':
                name_expr = st.value
                break
        if parse_arg is not None and name_expr is not None:
            facts['chunk_eval'] = (loop.target.id, pre, parse_arg, name_expr)
            facts.setdefault('name_sep', ' ')
    for k in ('split_cells', 'split_braces', 'strip', 'name_sep', 'bench_arg', 'product'):
        if k not in facts:
            raise ModelError(f'TechLib.__init__: step {k} not recognised (library reader cannot mirror the constructor)')
    return mod, f, facts


def chunk_name_body(facts, chunk):
    """(name, body) the constructor derives from one chunk of library text, None if it skips the chunk."""
    from . import minieval
    var, pre, parse_arg, name_expr = facts['chunk_eval']
    env = {var: chunk}
    if minieval.run(pre, env) == 'continue':
        return None
    return minieval.ev(name_expr, env), minieval.ev(parse_arg, env)


def library_sources(repo: Repo):
    """[(lib_name, source_text, node)] for every module-level `NAME = TechLib(<expr>)`."""
    mod = repo.mod('techlib')
    env, _ = fold_module(mod)
    libs = []
    for st in mod.tree.body:
        if isinstance(st, ast.Assign) and len(st.targets) == 1 and isinstance(st.targets[0], ast.Name) \
                and isinstance(st.value, ast.Call) and call_name(st.value) == 'TechLib' and len(st.value.args) == 1:
            v = fold_expr(st.value.args[0], env, strict=True)
            if not isinstance(v, str):
                raise ModelError(f'techlib.{st.targets[0].id}: library source does not fold to a string')
            libs.append((st.targets[0].id, v, st))
    if not libs:
        raise AnchorError('techlib.py: no TechLib(...) library definitions found')
    return mod, libs


_TOK = re.compile(r'\s*(?:#[^\n]*\s*)*([-_a-zA-Z0-9]+|[(),=])')


def parse_bench_body(cd: CellDef):
    """Tokenise per bench.GRAMMAR (NAME: /[-_a-z0-9]+/i, whitespace and #-comments ignored)."""
    s = cd.body
    pos = 0
    toks = []
    while True:
        m = _TOK.match(s, pos)
        if not m:
            if s[pos:].strip():
                cd.errors.append(f'unparsable text {s[pos:pos+20]!r}')
            break
        toks.append(m.group(1))
        pos = m.end()
    i = 0

    def params():
        nonlocal i
        if i >= len(toks) or toks[i] != '(':
            raise ValueError('expected (')
        i += 1
        out = []
        if toks[i] == ')':
            i += 1
            return out
        while True:
            out.append(toks[i])
            i += 1
            if toks[i] == ',':
                i += 1
                continue
            if toks[i] == ')':
                i += 1
                return out
            raise ValueError(f'expected , or ) got {toks[i]}')
    try:
        while i < len(toks):
            t = toks[i]
            if i + 1 < len(toks) and toks[i + 1] == '=':
                tgt = t
                kind = toks[i + 2]
                i += 3
                args = params()
                cd.assigns.append((tgt, kind, args))
            elif t in ('input', 'INPUT', 'output', 'OUTPUT'):
                i += 1
                for n in params():
                    cd.decl.append((t.lower(), n))
            else:
                raise ValueError(f'unexpected token {t}')
    except (ValueError, IndexError) as e:
        cd.errors.append(f'bench syntax: {e}')


def read_library(name, text, facts):
    cells = []
    for c_str in re.split(facts['split_cells'], text):
        if 'chunk_eval' in facts:
            nb = chunk_name_body(facts, c_str)
            if nb is None:
                continue
            cd = CellDef(name, nb[0], nb[1], c_str)
        else:
            c_str = re.sub(facts['strip'][0], facts['strip'][1], c_str)
            name_len = c_str.find(facts['name_sep'])
            if name_len <= 0:
                continue
            cd = CellDef(name, c_str[:name_len], c_str[name_len:], c_str)
        parse_bench_body(cd)
        parts = [s[1:-1].split(',') if s[0] == '{' else [s] for s in re.split(facts['split_braces'], cd.raw_name) if len(s) > 0]
        cd.names = [''.join(item) for item in product(*parts)]
        cells.append(cd)
    return cells


def resolve_prim(kind, nargs, prefix_rows):
    """Mirror of SimOps' primitive selection: case-folded startswith in dict order, slot by operand count."""
    k = kind.lower()
    for prefix, names, _ in prefix_rows:
        if k.startswith(prefix):
            if nargs > 4:
                return None
            slot = 0 if nargs == 4 else (1 if nargs == 3 else 2)
            return names[slot]
    return None


def eval_cell(cd: CellDef, luts, prefix_rows, weights):
    """Truth table per output over the declared inputs (row index: input j has weight 2^j).
    Returns ({output: table}, n_inputs) or raises ValueError for sequential / unresolved cells."""
    ins = cd.inputs_declared
    n = len(ins)
    if n > 8:
        raise ValueError('too many inputs')
    nrows = 1 << n
    mask = (1 << nrows) - 1
    val = {}
    for j, nm in enumerate(ins):
        t = 0
        for r in range(nrows):
            if (r >> j) & 1:
                t |= 1 << r
        val[nm] = t
    w = {k - 2: v for k, v in weights.items()}
    pending = list(cd.assigns)
    progress = True
    while pending and progress:
        progress = False
        for a in list(pending):
            tgt, kind, args = a
            if not all(x in val for x in args):
                continue
            prim = resolve_prim(kind, len(args), prefix_rows)
            if prim is None:
                raise ValueError(f'kind {kind} does not resolve to a primitive')
            lut = luts[prim]
            out = 0
            ops = [val[x] for x in args] + [0] * (4 - len(args))
            # out rows = rows where LUT[index(ops)] = 1
            for idx in range(16):
                if not (lut >> idx) & 1:
                    continue
                term = mask
                for k in range(4):
                    term &= ops[k] if idx & w[k] else (~ops[k] & mask)
                out |= term
            val[tgt] = out
            pending.remove(a)
            progress = True
    if pending:
        raise ValueError(f'unresolvable or cyclic definitions: {[p[0] for p in pending]}')
    return {o: val[o] for o in cd.outputs_declared if o in val}, n


# --------------------------------------------------------------------------- implementation graphs (for C10)

class GNode:
    def __init__(self, name, kind):
        self.name, self.kind = name, kind
        self.ins, self.outs = [], []
        self.index = None

    def __repr__(self):
        return f'{self.kind}:{self.name}'


class GLine:
    def __init__(self, driver, driver_pin, reader, reader_pin):
        self.driver, self.driver_pin, self.reader, self.reader_pin = driver, driver_pin, reader, reader_pin
        while len(driver.outs) <= driver_pin:
            driver.outs.append(None)
        while len(reader.ins) <= reader_pin:
            reader.ins.append(None)
        driver.outs[driver_pin] = self
        reader.ins[reader_pin] = self


class GCircuit:
    def __init__(self):
        self.nodes, self.lines, self.io_nodes = [], [], []
        self.forks, self.cells = {}, {}

    def fork(self, name):
        if name not in self.forks:
            n = GNode(name, '__fork__')
            self.forks[name] = n
            self.nodes.append(n)
        return self.forks[name]

    def line(self, d, r):
        dp = next((i for i, x in enumerate(d.outs) if x is None), len(d.outs))
        rp = next((i for i, x in enumerate(r.ins) if x is None), len(r.ins))
        l = GLine(d, dp, r, rp)
        self.lines.append(l)
        return l


def impl_graph(cd: CellDef):
    """The implementation circuit TechLib builds for a definition: bench semantics (cell + same-named fork per
    assignment, drivers in argument order, io forks in statement order) followed by 1:1 fork elimination
    (non-io forks with exactly one output are spliced out). Mirrors bench.BenchTransformer and
    Circuit.eliminate_1to1_forks; both are checked structurally by C10/C19 rules."""
    c = GCircuit()
    # statement order matters for node order: replay declarations and assignments in text order
    # (CellDef keeps them separately; interface statements only create forks, order among forks is irrelevant here)
    for d, n in cd.decl:
        c.io_nodes.append(c.fork(n))
    for tgt, kind, args in cd.assigns:
        cell = GNode(tgt, kind)
        c.cells[tgt] = cell
        c.nodes.append(cell)
        c.line(cell, c.fork(tgt))
        for a in args:
            c.line(c.fork(a), cell)
    ios = set(id(n) for n in c.io_nodes)
    for n in list(c.forks.values()):
        if id(n) in ios or len(n.outs) != 1:
            continue
        il, ol = n.ins[0] if n.ins else None, n.outs[0]
        if il is None:
            continue
        c.nodes.remove(n)
        del c.forks[n.name]
        c.lines.remove(ol)
        il.reader, il.reader_pin = ol.reader, ol.reader_pin
        il.reader.ins[il.reader_pin] = il
    for i, n in enumerate(c.nodes):
        n.index = i
    return c
