"""Engine K - constant folder with fixed-width semantics for module-level tables.

Evaluates a restricted expression language over an environment; anything outside the
subset raises ModelError (-> exit 2), it never guesses.
"""
from __future__ import annotations

import ast

from .core import ModelError, Module


class U16(int):
    """np.uint16 constant."""
    def __new__(cls, v):
        return int.__new__(cls, int(v) & 0xFFFF)

    def __invert__(self):
        return U16(~int(self))

    def __repr__(self):
        return f'U16(0b{int(self):016b})'


class Sym:
    """Symbolic float32 sentinel (np.float32(2**127) etc.) kept by source text."""
    def __init__(self, text, value=None):
        self.text = text
        self.value = value

    def __repr__(self):
        return f'Sym({self.text})'

    def __eq__(self, other):
        return isinstance(other, Sym) and other.text == self.text

    def __hash__(self):
        return hash(self.text)


class Unknown:
    def __init__(self, why):
        self.why = why

    def __repr__(self):
        return f'Unknown({self.why})'


def fold_expr(node, env, strict=True):
    def bad(why):
        if strict:
            raise ModelError(f'constant folder: {why}: {ast.unparse(node)[:120]}')
        return Unknown(why)

    if isinstance(node, ast.Constant):
        return node.value
    if isinstance(node, ast.Name):
        if node.id in env:
            return env[node.id]
        return bad(f'unbound name {node.id}')
    if isinstance(node, ast.Tuple):
        return tuple(fold_expr(e, env, strict) for e in node.elts)
    if isinstance(node, ast.List):
        return [fold_expr(e, env, strict) for e in node.elts]
    if isinstance(node, ast.Dict):
        d = {}
        for k, v in zip(node.keys, node.values):
            if k is None:
                return bad('dict unpacking')
            d[fold_expr(k, env, strict)] = fold_expr(v, env, strict)
        return d
    if isinstance(node, ast.UnaryOp):
        v = fold_expr(node.operand, env, strict)
        if isinstance(v, Unknown):
            return v
        if isinstance(node.op, ast.Invert):
            return ~v
        if isinstance(node.op, ast.USub):
            if isinstance(v, Sym):
                return Sym('-' + v.text, -v.value if v.value is not None else None)
            return -v
        if isinstance(node.op, ast.Not):
            return not v
        return bad('unary op')
    if isinstance(node, ast.BinOp):
        a = fold_expr(node.left, env, strict)
        b = fold_expr(node.right, env, strict)
        if isinstance(a, Unknown):
            return a
        if isinstance(b, Unknown):
            return b
        try:
            if isinstance(node.op, ast.Add):
                return a + b
            if isinstance(node.op, ast.Sub):
                return a - b
            if isinstance(node.op, ast.Mult):
                return a * b
            if isinstance(node.op, ast.Pow):
                return a ** b
            if isinstance(node.op, ast.BitAnd):
                return a & b
            if isinstance(node.op, ast.BitOr):
                return a | b
            if isinstance(node.op, ast.BitXor):
                return a ^ b
            if isinstance(node.op, ast.LShift):
                return a << b
            if isinstance(node.op, ast.RShift):
                return a >> b
        except TypeError:
            return bad('binop on unsupported operands')
        return bad('binop')
    if isinstance(node, ast.Call):
        f = node.func
        fname = ast.unparse(f)
        if fname in ('np.uint16', 'numpy.uint16') and len(node.args) == 1:
            v = fold_expr(node.args[0], env, strict)
            return v if isinstance(v, Unknown) else U16(v)
        if fname in ('np.float32', 'numpy.float32') and len(node.args) == 1:
            v = fold_expr(node.args[0], env, strict)
            if isinstance(v, Unknown):
                return v
            return Sym(ast.unparse(node.args[0]), float(v))
        if fname == 'int' and len(node.args) == 1:
            v = fold_expr(node.args[0], env, strict)
            return v if isinstance(v, Unknown) else int(v)
        if isinstance(f, ast.Attribute) and f.attr == 'replace' and len(node.args) == 2:
            s = fold_expr(f.value, env, strict)
            a = fold_expr(node.args[0], env, strict)
            b = fold_expr(node.args[1], env, strict)
            for x in (s, a, b):
                if isinstance(x, Unknown):
                    return x
            if not isinstance(s, str):
                return bad('replace on non-string')
            return s.replace(a, b)
        if fname == 'dict' and not node.args and not node.keywords:
            return {}
        return bad(f'call {fname}')
    if isinstance(node, ast.JoinedStr):
        return bad('f-string')
    return bad(type(node).__name__)


def fold_module(mod: Module, strict_names=()):
    """Fold all simple module-level assignments in order. Returns env: name -> value|Unknown.

    Also records, per name, the ast node of the assignment (env_nodes)."""
    env, nodes = {}, {}
    for st in mod.tree.body:
        if isinstance(st, ast.Assign) and len(st.targets) == 1:
            tgt = st.targets[0]
            if isinstance(tgt, ast.Name):
                v = fold_expr(st.value, env, strict=tgt.id in strict_names)
                env[tgt.id] = v
                nodes[tgt.id] = st
            elif isinstance(tgt, ast.Tuple) and all(isinstance(e, ast.Name) for e in tgt.elts):
                strict = any(e.id in strict_names for e in tgt.elts)
                v = fold_expr(st.value, env, strict=strict)
                if isinstance(v, tuple) and len(v) == len(tgt.elts):
                    for e, x in zip(tgt.elts, v):
                        env[e.id] = x
                        nodes[e.id] = st
                else:
                    for e in tgt.elts:
                        env[e.id] = Unknown('tuple assignment not folded')
                        nodes[e.id] = st
    return env, nodes
