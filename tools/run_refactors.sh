#!/bin/sh
# run_refactors.sh <dir-with-P/out/k> ... : verify_refactor on each, 8 in parallel, results in /tmp/refres
mkdir -p /tmp/refres
ls -d "$@" | xargs -P 8 -I{} sh -c 'p=$(echo {} | awk -F/ "{print \$(NF-2)}"); k=$(basename {}); /venv/bin/python /verif/tools/verify_refactor.py {} > /tmp/refres/$p-$k.json 2>&1'
/venv/bin/python - <<'PY'
import json,glob
for f in sorted(glob.glob('/tmp/refres/*.json')):
    try: r=json.loads(open(f).read().strip().splitlines()[-1])
    except Exception as e: print(f,'unreadable'); continue
    al=r.get('alarms',{})
    print(f.split('/')[-1][:-5], 'apply',r.get('apply_rc'),'same',r.get('equiv_same'), {k:v['exit'] for k,v in al.items()})
    for k,v in al.items():
        for l in v['first'][:2]: print('      ',k,l[:230])
PY
