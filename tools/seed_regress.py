#!/venv/bin/python
"""Re-run the checks on every stored seed (seeded/<id>/patch.diff applied to a scratch copy of /repo/src/kyupy).
usage: seed_regress.py [--all] [--update] [ids...]   --all: every check, not only the seed's own; --update: rewrite caught_by in meta.json"""
import json
import os
import re
import shutil
import subprocess
import sys
import tempfile
from concurrent.futures import ThreadPoolExecutor

VERIF = os.path.dirname(os.path.dirname(os.path.abspath(__file__)))
args = [a for a in sys.argv[1:] if not a.startswith('--')]
ALL = '--all' in sys.argv
UPDATE = '--update' in sys.argv
ids = args or sorted(os.listdir(f'{VERIF}/seeded'))
props = [c['property_id'] for c in json.load(open(f'{VERIF}/MANIFEST.json'))['checks']]


def one(sid):
    d = f'{VERIF}/seeded/{sid}'
    if not os.path.isfile(f'{d}/patch.diff'):
        return sid, None
    own = sid.split('-')[0]
    tmp = tempfile.mkdtemp(prefix='kvsr_')
    try:
        shutil.copytree('/repo/src', f'{tmp}/src')
        r = subprocess.run(f'patch -p1 -s < {d}/patch.diff', shell=True, cwd=tmp, capture_output=True, text=True)
        if r.returncode:
            return sid, {'apply': r.stdout[-200:] + r.stderr[-200:]}
        res = {}
        for p in (props if ALL else [own]):
            env = dict(os.environ, KV_REPLAY_DIR=f'{tmp}/replay')
            r = subprocess.run(f'{VERIF}/check {p} --root {tmp}/src/kyupy', shell=True, capture_output=True, text=True, env=env)
            if r.returncode:
                rules = sorted(set(re.findall(r': \[(C\d\d\.[-\w]+)\]', r.stdout)))
                res[p] = {'exit': r.returncode, 'rules': rules}
        return sid, res
    finally:
        shutil.rmtree(tmp, ignore_errors=True)


bad = 0
with ThreadPoolExecutor(int(__import__("os").environ.get("KV_JOBS", "14"))) as ex:
    for sid, res in ex.map(one, ids):
        if res is None:
            continue
        own = sid.split('-')[0]
        ok = res.get(own, {}).get('exit') == 1
        bad += not ok
        print(('OK    ' if ok else 'MISSED'), sid, {k: (v['exit'] if isinstance(v, dict) else v) for k, v in res.items()}, flush=True)
        if UPDATE and not ALL and 'apply' not in res:
            # own check only: refresh the entries of the own property, keep what earlier full runs recorded about the other checks
            mp = f'{VERIF}/seeded/{sid}/meta.json'
            m = json.load(open(mp))
            cb = dict(m.get('caught_by', {}))
            cb.pop(own, None)
            if ok:
                cb[own] = res[own]['rules']
            m['caught_by'] = cb
            ae = [q for q in m.get('analysis_error_in', []) if q != own]
            if res.get(own, {}).get('exit') == 2:
                ae.append(own)
            m['analysis_error_in'] = ae
            m['caught_by_own_check'] = ok
            json.dump(m, open(mp, 'w'), indent=1)
        if UPDATE and ALL and 'apply' not in res:
            mp = f'{VERIF}/seeded/{sid}/meta.json'
            m = json.load(open(mp))
            m['caught_by'] = {q: v['rules'] for q, v in res.items() if v['exit'] == 1}
            m['analysis_error_in'] = [q for q, v in res.items() if v['exit'] == 2]
            m['caught_by_own_check'] = ok
            json.dump(m, open(mp, 'w'), indent=1)
print(f'SEEDS {len(ids) - bad}/{len(ids)} caught by their own check')
