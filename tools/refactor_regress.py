#!/venv/bin/python
"""Run every check on every behaviour-preserving refactoring stored under refactorings/<id>/patch.diff (applied to a scratch copy
of /repo/src/kyupy). Each was produced by an independent sub-agent together with an equivalence driver (equiv.py: identical
output before/after, 31 tests pass). A silent run is the goal; the residual alarms are listed in refactorings/STATUS.json.
usage: refactor_regress.py [--update] [ids...]"""
import json
import os
import re
import shutil
import subprocess
import sys
import tempfile
from concurrent.futures import ThreadPoolExecutor

VERIF = os.path.dirname(os.path.dirname(os.path.abspath(__file__)))
args = [a for a in sys.argv[1:] if not a.startswith('--')]
ids = args or sorted(d for d in os.listdir(f'{VERIF}/refactorings') if os.path.isdir(f'{VERIF}/refactorings/{d}'))
props = [c['property_id'] for c in json.load(open(f'{VERIF}/MANIFEST.json'))['checks']]


def one(rid):
    d = f'{VERIF}/refactorings/{rid}'
    tmp = tempfile.mkdtemp(prefix='kvrr_')
    try:
        shutil.copytree('/repo/src', f'{tmp}/src')
        r = subprocess.run(f'patch -p1 -s < {d}/patch.diff', shell=True, cwd=tmp, capture_output=True, text=True)
        if r.returncode:
            return rid, {'apply': 'patch does not apply to the current tree'}
        res = {}
        for p in props:
            env = dict(os.environ, KV_REPLAY_DIR=f'{tmp}/replay')
            r = subprocess.run(f'{VERIF}/check {p} --root {tmp}/src/kyupy', shell=True, capture_output=True, text=True, env=env)
            if r.returncode:
                rules = sorted(set(re.findall(r': \[(C\d\d\.[-\w]+)\]', r.stdout)))
                err = [l.strip()[:200] for l in r.stdout.splitlines() if 'ANALYSIS-ERROR' in l][:1]
                res[p] = {'exit': r.returncode, 'rules': rules, 'error': err}
        return rid, res
    finally:
        shutil.rmtree(tmp, ignore_errors=True)


status = {}
with ThreadPoolExecutor(int(__import__("os").environ.get("KV_JOBS", "14"))) as ex:
    for rid, res in ex.map(one, ids):
        status[rid] = res
        print(('SILENT ' if not res else 'ALARM  '), rid, {k: (v['exit'] if isinstance(v, dict) else v) for k, v in res.items()}, flush=True)
n = sum(1 for v in status.values() if not v)
print(f'REFACTORINGS {n}/{len(status)} silent')
if '--update' in sys.argv and args and os.path.isfile(f'{VERIF}/refactorings/STATUS.json'):
    # a partial run: merge into the recorded status
    old = json.load(open(f'{VERIF}/refactorings/STATUS.json'))
    merged = {k: {} for k in old.get('silent', [])}
    merged.update(old.get('residual_alarms', {}))
    merged.update(status)
    status = merged
if '--update' in sys.argv:
    json.dump({'silent': sorted(k for k, v in status.items() if not v), 'residual_alarms': {k: v for k, v in sorted(status.items()) if v}},
              open(f'{VERIF}/refactorings/STATUS.json', 'w'), indent=1)
