#!/venv/bin/python
"""Check a behaviour-preserving refactoring against all checks (they must stay silent).

usage: verify_refactor.py <dir containing patch.diff and equiv.py> [--tests]
In a scratch worktree of /repo HEAD: equiv.py on the unchanged tree, git apply, equiv.py again (outputs must be
identical), optionally the 31 tests, then every claimed check with --root. Prints a JSON summary on the last line."""
import json
import os
import subprocess
import sys
import tempfile

VERIF = os.path.dirname(os.path.dirname(os.path.abspath(__file__)))


def sh(cmd, cwd=None, env=None, timeout=900):
    r = subprocess.run(cmd, shell=True, cwd=cwd, env=env, capture_output=True, text=True, timeout=timeout)
    return r.returncode, r.stdout + r.stderr


def main():
    d = os.path.abspath(sys.argv[1])
    wt = tempfile.mkdtemp(prefix='kvref_')
    os.rmdir(wt)
    res = {'dir': d}
    rc, out = sh(f'git -C /repo worktree add -q --detach {wt} HEAD')
    if rc:
        print(out)
        return 3
    try:
        env = dict(os.environ, PYTHONPATH=f'{wt}/src')
        a = b = None
        if os.path.isfile(f'{d}/equiv.py'):
            rc, a = sh(f'/venv/bin/python {d}/equiv.py 2>/dev/null', cwd=wt, env=env, timeout=600)
            res['equiv_clean_rc'] = rc
        rc, out = sh(f'git -C {wt} apply {d}/patch.diff')
        res['apply_rc'] = rc
        if rc:
            res['apply_err'] = out[-300:]
            print(json.dumps(res))
            return 1
        if os.path.isfile(f'{d}/equiv.py'):
            rc, b = sh(f'/venv/bin/python {d}/equiv.py 2>/dev/null', cwd=wt, env=env, timeout=600)
            res['equiv_ref_rc'] = rc
            res['equiv_same'] = a == b
        if '--tests' in sys.argv:
            rc, out = sh('/venv/bin/python -m pytest -q -p no:cacheprovider --timeout=900 -n 8', cwd=wt, env=env, timeout=1200)
            res['tests_rc'] = rc
        man = json.load(open(os.path.join(VERIF, 'MANIFEST.json')))
        alarms = {}
        for c in man['checks']:
            pid = c['property_id']
            rc, out = sh(f'{VERIF}/check {pid} --root {wt}/src/kyupy', timeout=600)
            if rc != 0:
                alarms[pid] = {'exit': rc, 'first': [l.strip()[:260] for l in out.splitlines() if ': [' in l or 'ANALYSIS-ERROR' in l][:4]}
        res['alarms'] = alarms
    finally:
        sh(f'git -C /repo worktree remove --force {wt}')
    print(json.dumps(res))
    return 0


if __name__ == '__main__':
    sys.exit(main())
