#!/venv/bin/python
"""canon_diff.py <patch.diff> : apply the patch to a scratch copy of /repo/src and show, per changed function, whether the
normal forms agree with the reference (and a diff of the normal forms if not)."""
import ast, difflib, os, shutil, subprocess, sys, tempfile
sys.path.insert(0, os.path.dirname(os.path.dirname(os.path.abspath(__file__))))
from kvstatic.canon import canon_text
from kvstatic.equiv import _functions, _dump, REFERENCE_ROOT
d = tempfile.mkdtemp(prefix='kvcd_')
try:
    shutil.copytree('/repo/src', d + '/src')
    subprocess.run(f'patch -p1 -s < {os.path.abspath(sys.argv[1])}', shell=True, cwd=d, check=True)
    for f in sorted(os.listdir(d + '/src/kyupy')):
        if not f.endswith('.py'): continue
        ta = ast.parse(open(f'{d}/src/kyupy/{f}').read()); tr = ast.parse(open(f'{REFERENCE_ROOT}/{f}').read())
        fa, fr = _functions(ta), _functions(tr)
        for q in fa:
            if q not in fr: print(f, q, 'NEW'); continue
            if _dump(fa[q][0]) == _dump(fr[q][0]): continue
            a = canon_text(fa[q][0], ta, fa[q][1]); r = canon_text(fr[q][0], tr, fr[q][1])
            print(f, q, 'EQUAL' if a == r else 'DIFFERENT')
            if a != r and '-q' not in sys.argv:
                print('\n'.join(list(difflib.unified_diff(r.split('\n'), a.split('\n'), lineterm='', n=1))[:int(os.environ.get('N', 60))]))
finally:
    shutil.rmtree(d)
