#!/venv/bin/python
"""Systematic mutation sweep over the anchored code regions of a property (measurement tool, not part of any check).

For property P: the `where` line ranges of its anchors select AST nodes in /repo/src/kyupy; classical mutation operators
(comparison / arithmetic / logical operator replacement, small integer constant +1, boolean flip, unary removal,
if-test negation, statement deletion) generate single-edit mutants; each is written to a scratch copy and P's own check
is run on it. Mutants the check does not report are listed; with --tests the 31-test baseline is run on those, so that
what remains are mutants that pass the tests and are not reported (either equivalent mutants or blind spots - to be
read by hand).

usage: auto_mutate.py PROP [--max N] [--seed S] [--tests] [--all-checks]
"""
import ast
import copy
import json
import os
import random
import re
import shutil
import subprocess
import sys
import tempfile
from concurrent.futures import ThreadPoolExecutor

VERIF = os.path.dirname(os.path.dirname(os.path.abspath(__file__)))
SRC = '/repo/src/kyupy'
TOL = 6


def anchors(prop):
    for l in open(f'{VERIF}/properties.jsonl'):
        d = json.loads(l)
        if d['id'] == prop:
            out = {}
            a = d['anchors']
            for m in a.get('mechanism', []) + a.get('state', []):
                for f, lo, hi in re.findall(r'([\w_]+\.py):(\d+)(?:-(\d+))?', m.get('where', '')):
                    cur = f
                    out.setdefault(cur, []).append((int(lo), int(hi or lo)))
                # continuation ranges without file name ("logic_sim.py:49-52, 261-266")
                for part in m.get('where', '').split(';'):
                    fm = re.search(r'([\w_]+\.py):', part)
                    if fm:
                        for lo, hi in re.findall(r'(?<![\w.:])(\d+)-(\d+)', part):
                            out.setdefault(fm.group(1), []).append((int(lo), int(hi)))
            return out
    raise SystemExit(f'unknown property {prop}')


CMP = {ast.Lt: [ast.LtE, ast.Gt], ast.LtE: [ast.Lt], ast.Gt: [ast.GtE, ast.Lt], ast.GtE: [ast.Gt], ast.Eq: [ast.NotEq], ast.NotEq: [ast.Eq],
       ast.Is: [ast.IsNot], ast.IsNot: [ast.Is], ast.In: [ast.NotIn], ast.NotIn: [ast.In]}
BIN = {ast.Add: [ast.Sub], ast.Sub: [ast.Add], ast.BitAnd: [ast.BitOr], ast.BitOr: [ast.BitAnd, ast.BitXor], ast.BitXor: [ast.BitOr],
       ast.LShift: [ast.RShift], ast.RShift: [ast.LShift], ast.Mult: [ast.Add], ast.FloorDiv: [ast.Mult], ast.Mod: [ast.FloorDiv]}


def sites(tree, ranges):
    """(kind, node index in ast.walk order, variant) for every applicable mutation inside the ranges"""
    out = []
    nodes = list(ast.walk(tree))
    for i, n in enumerate(nodes):
        ln = getattr(n, 'lineno', None)
        if ln is None or not any(lo - TOL <= ln <= hi + TOL for lo, hi in ranges):
            continue
        if isinstance(n, ast.Compare) and len(n.ops) == 1:
            for k, _ in enumerate(CMP.get(type(n.ops[0]), [])):
                out.append(('cmp', i, k))
        elif isinstance(n, ast.BinOp) and type(n.op) in BIN:
            for k, _ in enumerate(BIN[type(n.op)]):
                out.append(('bin', i, k))
        elif isinstance(n, ast.AugAssign) and type(n.op) in BIN:
            out.append(('aug', i, 0))
            out.append(('del', i, 0))
        elif isinstance(n, ast.BoolOp):
            out.append(('bool', i, 0))
        elif isinstance(n, ast.UnaryOp) and isinstance(n.op, (ast.Not, ast.Invert, ast.USub)):
            out.append(('unary', i, 0))
        elif isinstance(n, ast.Constant) and type(n.value) is int and 0 <= n.value <= 8:
            out.append(('const', i, 0))
        elif isinstance(n, ast.Constant) and isinstance(n.value, bool):
            out.append(('flip', i, 0))
        elif isinstance(n, ast.If):
            out.append(('negif', i, 0))
        elif isinstance(n, (ast.Assign, ast.Expr)) and not (isinstance(n, ast.Expr) and isinstance(n.value, ast.Constant)):
            out.append(('del', i, 0))
        elif isinstance(n, (ast.Continue, ast.Break)):
            out.append(('del', i, 0))
    return out


def apply(tree, site):
    kind, idx, k = site
    t = copy.deepcopy(tree)
    n = list(ast.walk(t))[idx]
    if kind == 'cmp':
        n.ops = [CMP[type(n.ops[0])][k]()]
    elif kind == 'bin':
        n.op = BIN[type(n.op)][k]()
    elif kind == 'aug':
        n.op = BIN[type(n.op)][0]()
    elif kind == 'bool':
        n.op = ast.Or() if isinstance(n.op, ast.And) else ast.And()
    elif kind == 'unary':
        new = n.operand
        _replace(t, n, new)
    elif kind == 'const':
        n.value = n.value + 1
    elif kind == 'flip':
        n.value = not n.value
    elif kind == 'negif':
        n.test = ast.UnaryOp(op=ast.Not(), operand=n.test)
    elif kind == 'del':
        _replace(t, n, ast.Pass())
    ast.fix_missing_locations(t)
    return t


def _replace(tree, old, new):
    for p in ast.walk(tree):
        for f, v in ast.iter_fields(p):
            if v is old:
                setattr(p, f, new)
                return
            if isinstance(v, list):
                for i, x in enumerate(v):
                    if x is old:
                        v[i] = new
                        return


def describe(tree, site):
    kind, idx, k = site
    n = list(ast.walk(tree))[idx]
    try:
        txt = ast.unparse(n)[:70].replace('\n', ' ')
    except Exception:  # noqa: BLE001
        txt = '?'
    return f'{kind}@{getattr(n, "lineno", "?")}: {txt}'


def main():
    prop = sys.argv[1].upper()
    mx = int(sys.argv[sys.argv.index('--max') + 1]) if '--max' in sys.argv else 60
    seed = int(sys.argv[sys.argv.index('--seed') + 1]) if '--seed' in sys.argv else 1
    rng = random.Random(seed)
    anc = anchors(prop)
    cands = []
    trees = {}
    for f, ranges in anc.items():
        p = f'{SRC}/{f}'
        if not os.path.isfile(p):
            continue
        trees[f] = ast.parse(open(p).read())
        for s in sites(trees[f], ranges):
            cands.append((f, s))
    rng.shuffle(cands)
    cands = cands[:mx]
    checks = [prop] if '--all-checks' not in sys.argv else [c['property_id'] for c in json.load(open(f'{VERIF}/MANIFEST.json'))['checks']]

    def one(c):
        f, s = c
        t = apply(trees[f], s)
        try:
            src = ast.unparse(t)
            compile(src, f, 'exec')
        except Exception:  # noqa: BLE001
            return c, 'nocompile', None
        tmp = tempfile.mkdtemp(prefix='kvam_')
        try:
            shutil.copytree('/repo/src', f'{tmp}/src')
            open(f'{tmp}/src/kyupy/{f}', 'w').write(src)
            rcs = {}
            for p in checks:
                r = subprocess.run(f'{VERIF}/check {p} --root {tmp}/src/kyupy', shell=True, capture_output=True, text=True, env=dict(os.environ, KV_REPLAY_DIR=f'{tmp}/replay'))
                rcs[p] = r.returncode
            status = 'caught' if any(v == 1 for v in rcs.values()) else ('exit2' if any(v == 2 for v in rcs.values()) else 'silent')
            tests = None
            if status != 'caught' and '--tests' in sys.argv:
                shutil.copytree('/repo/tests', f'{tmp}/tests')
                for extra in ('pyproject.toml', 'setup.py', 'setup.cfg', 'pytest.ini', 'tox.ini'):
                    if os.path.isfile(f'/repo/{extra}'):
                        shutil.copy(f'/repo/{extra}', f'{tmp}/{extra}')
                r = subprocess.run('/venv/bin/python -m pytest -q -p no:cacheprovider -x --timeout=600 -n 4', shell=True, cwd=tmp, capture_output=True, text=True,
                                   env=dict(os.environ, PYTHONPATH=f'{tmp}/src'), timeout=1500)
                tests = 'pass' if r.returncode == 0 else 'fail'
            return c, status, tests
        finally:
            shutil.rmtree(tmp, ignore_errors=True)

    res = {'caught': 0, 'exit2': 0, 'silent': 0, 'nocompile': 0}
    open_list = []
    with ThreadPoolExecutor(6 if '--tests' in sys.argv else 14) as ex:
        for (f, s), status, tests in ex.map(one, cands):
            res[status] += 1
            if status in ('silent', 'exit2'):
                open_list.append((status, tests, f, describe(trees[f], s)))
    print(f'{prop}: {len(cands)} mutants: {res}')
    for status, tests, f, d in sorted(open_list, key=lambda x: (str(x[1]), x[2], x[3])):
        print(f'  {status:6s} tests={tests} {f} {d}')


if __name__ == '__main__':
    main()
