#!/venv/bin/python
"""Round 2: re-verify (apply + demo both ways + all checks; the 31-test result is taken from the earlier full verification in
/tmp/seedres2) every sub-agent seed under /tmp/sb/<PROP>/out/<k>/ against the current /repo HEAD and store the confirmed
ones as /verif/seeded/<PROP>-r2-<k>/{patch.diff, demo.py, notes.md, meta.json}."""
import json
import os
import shutil
import subprocess
import sys
from concurrent.futures import ThreadPoolExecutor

VERIF = os.path.dirname(os.path.dirname(os.path.abspath(__file__)))
def _opt(name, default):
    return sys.argv[sys.argv.index(name) + 1] if name in sys.argv else default


BASE = _opt('--base', '/tmp/sb')
TAG = _opt('--tag', 'r2')
RES = _opt('--res', '/tmp/seedres2')
_skip = set()
for _o in ('--base', '--tag', '--res'):
    if _o in sys.argv:
        _skip.update({sys.argv.index(_o), sys.argv.index(_o) + 1})
props = [a for i, a in enumerate(sys.argv) if i > 0 and i not in _skip] or sorted(d for d in os.listdir(BASE) if os.path.isdir(f'{BASE}/{d}'))
head = subprocess.run('git -C /repo rev-parse --short HEAD', shell=True, capture_output=True, text=True).stdout.strip()
jobs = []
for p in props:
    for k in ('1', '2', '3', '4', '5'):
        d = f'{BASE}/{p}/out/{k}'
        if os.path.isfile(f'{d}/patch.diff'):
            jobs.append((p, k, d))


def one(job):
    p, k, d = job
    full = {}
    fr = f'{RES}/{p}-{k}.json'
    if os.path.isfile(fr):
        try:
            full = json.loads(open(fr).read().strip().splitlines()[-1])
        except Exception:  # noqa: BLE001
            full = {}
    r = subprocess.run(f'/venv/bin/python {VERIF}/tools/verify_seed.py {d} {p} --no-tests', shell=True, capture_output=True, text=True)
    try:
        res = json.loads(r.stdout.strip().splitlines()[-1])
    except Exception:  # noqa: BLE001
        return f'{p} {k} verify failed {r.stdout[-300:]} {r.stderr[-300:]}'
    ok = res.get('apply_rc') == 0 and res.get('demo_clean_rc') == 0 and res.get('demo_mut_rc', 0) != 0 and full.get('tests_rc') == 0
    line = (f"{p} {k} apply {res.get('apply_rc')} demo clean/mut {res.get('demo_clean_rc')} {res.get('demo_mut_rc')} tests {full.get('tests_tail', '?')[:12]} "
            f"own {res.get('caught_by_own')} { {q: v['exit'] for q, v in res.get('caught_by', {}).items()} }")
    if not ok:
        return line + '  NOT STORED'
    out = f'{VERIF}/seeded/{p}-{TAG}-{k}'
    os.makedirs(out, exist_ok=True)
    for f in ('patch.diff', 'demo.py', 'notes.md'):
        if os.path.isfile(f'{d}/{f}'):
            shutil.copy(f'{d}/{f}', f'{out}/{f}')
    notes = open(f'{d}/notes.md').read() if os.path.isfile(f'{d}/notes.md') else ''
    meta = {
        'id': f'{p}-{TAG}-{k}', 'breaks_property': p,
        'origin': f'independent sub-agent (round {TAG}: asked for changes that need something specific to manifest - a sequence, an unusual input, two cooperating sites), given only the property text and a scratch worktree',
        'repo_head_when_confirmed': head,
        'needs_to_manifest': next((l.strip() for l in notes.splitlines() if 'need' in l.lower() and len(l) > 30), '')[:400],
        'confirmed_by_me': {
            'demo_on_unchanged_tree_rc': res.get('demo_clean_rc'), 'patch_applies': True, 'baseline_tests_with_patch': full.get('tests_tail'),
            'demo_with_patch_rc': res.get('demo_mut_rc'),
            'commands': ['tools/verify_seed.py <dir> <PROP>   (scratch worktree of /repo HEAD, PYTHONPATH=<wt>/src; demo, git apply, pytest -n 8, demo, all checks --root)'],
        },
        'caught_by': {q: v['rules'] for q, v in res.get('caught_by', {}).items() if v['exit'] == 1},
        'analysis_error_in': [q for q, v in res.get('caught_by', {}).items() if v['exit'] == 2],
        'caught_by_own_check': bool(res.get('caught_by_own')),
    }
    json.dump(meta, open(f'{out}/meta.json', 'w'), indent=1)
    return line


with ThreadPoolExecutor(6) as ex:
    for line in ex.map(one, jobs):
        print(line, flush=True)
