#!/venv/bin/python
"""Generates /verif/MANIFEST.json from the table below (one place to keep texts in sync)."""
import json
import os
import sys

HERE = os.path.dirname(os.path.dirname(os.path.abspath(__file__)))

PY = '/venv/bin/python /verif/check'

CHECKS = {
    'C01': dict(
        technique='static analysis: constant folding of LUT tables + exhaustive truth-table abstract interpretation of dispatch branches + def-use/provenance lint of op-tuple construction',
        text='Proves the per-operation induction step of 2-valued simulation for all 33 primitives exhaustively (16 rows x 2 chains, LUT vs family oracle, '
             'prefix table, arity selection over 4 connectivity patterns, operand wiring into op columns, c_locs rebinding, assign/capture/cycle plumbing). '
             'For-all over circuits follows by induction over the op list; the order itself is C17/C07.',
        note='Trusted: python ast, numpy element-wise & | ^ ~, the 33-formula Boolean family oracle. Not decided: validity of topological_order for every graph, numba conformance.',
        ref='DESIGN.md 2/C01'),
    'C02': dict(
        technique='static analysis: truth-table abstract interpretation (bit-plane domain, aliasing modelled) of logic.bp4v_*/bp8v_* and of every 4-/8-valued dispatch branch, compared with an algebra oracle; X-soundness as table theorem',
        text='All ten bit-parallel operators for arity 1..4 and all 66 multi-valued dispatch branches are evaluated over every operand tuple (up to 8^4 rows) '
             'and compared with the documented algebra; X-monotonicity and initial/final component consistency are checked on the code-derived tables.',
        note='Trusted: numpy element-wise semantics, the algebra oracle. Circuit-level lifting by induction is argued, not mechanised.',
        ref='DESIGN.md 2/C02'),
    'C12': dict(
        technique='static analysis: exhaustive truth-table abstract interpretation of _mv_* (bit-blasted uint8) and bp*_ operators vs algebra oracle, with a shape-provenance component for broadcasting; syntactic out= discipline rule',
        text='Exhaustive over all 8^k / 4^k operand tuples, k = 1..4, for both storage formats, plus De Morgan, Boolean restriction and agreement between formats; '
             'shape/lane independence follows because only element-wise primitives are accepted by the interpreter and no array shaped like a subset of the operands is updated in place with a value shaped like others (operands broadcast in any order).',
        note='Trusted: numpy ufunc/putmask semantics incl. out=/where= and the broadcasting rule itself. out aliasing an operand is outside the property.',
        ref='DESIGN.md 2/C12'),
}

CHECKS.update({
    'C05': dict(
        technique='static analysis: table theorems over code-derived 8-valued primitive tables (engine A) and folded LUT constants; structural class/column agreement',
        text='For all 33 primitives and all 6^4 known operand tuples: 8-valued initial/final equal LUT(initials)/LUT(finals), and a result without activity implies the LUT is constant '
             'on the cube of active operands, so by the parity invariant (C03) the timing kernel can emit no edge. Both simulators provably share SimOps, LUT column and operand columns.',
        note='Trusted: C03 parity invariant, float32 sentinel absorption, induction over the op list. Not decided: option settings (C06-C08).',
        ref='DESIGN.md 2/C05'),
    'C16': dict(
        technique='static analysis: call-site contract lint on LogicSim.c_prop (presence per logic arm, argument provenance through the c_locs rebinding, basic-index view)',
        text='Decides the "invoked once per evaluated signal with its identity and a writable view" clause completely for all three logic arms, for every circuit, because it is a property of the loop body shape.',
        note='Trusted: numpy basic indexing yields a writable view. "Nothing upstream changes" relies on C07.',
        ref='DESIGN.md 2/C16'),
    'C19': dict(
        technique='static analysis: constant folding of the five library strings, DSL reader driven by the regexes found in TechLib.__init__, primitive resolution through kind_prefixes, exhaustive truth tables (<=64 rows) vs family oracle',
        text='Every one of the 263 definitions (1026 names) is checked for pin discipline and primitive resolution; every combinational cell in a named family is evaluated exhaustively over its inputs and compared per output pin.',
        note='Trusted: the family oracle (stands in for vendor datasheets), LUT constants (C01). Cells outside the families get pin/resolution rules only and are listed in the evidence.',
        ref='DESIGN.md 2/C19'),
})

CHECKS.update({
    'C09': dict(
        technique='static analysis: whole-package ownership (who-may-write) lint on .index and the circuit containers, must-follow pairing of back-reference stores, ordering rules in constructors/removers',
        text='Decides the representation-ownership and pairing clauses that every edit history relies on: only constructors/removers/IndexList touch indices and containers (all 12 modules), swap-with-last rewrites the moved index, '
             'each reader/driver store is followed by its back-reference store, Line.remove clears both slots and squeezes forks, stats totals name their containers.',
        note='Not decided: the for-all-histories invariant itself (interaction of many edits). Receiver typing is by naming convention (no type checker available).',
        ref='DESIGN.md 2/C09'),
    'C10': dict(
        technique='static analysis: writer/reader table agreement (pickle), sibling-arm comparison (copy), ordering lint (fork elimination), guard evaluation of substitute over all library implementation graphs read from the source (node_map key coverage), provenance of (node, pin) pairs',
        text='Decides pickle/copy/elimination structure and, for every one of the 263 library implementation graphs and every connected-pin pattern, that no node_map read in substitute can miss its key (resolving succeeds); plus pin/node pairing and name/order preservation.',
        note='Not decided: functional equivalence of the re-wired circuit for arbitrary implementation shapes; composition of transformations.',
        ref='DESIGN.md 2/C10'),
    'C17': dict(
        technique='static analysis: None-discipline dataflow lint on pin-list iterations, Kahn-shape structural rules, forward/backward mirror comparison by AST renaming, predicate agreement across sites, regex AST analysis',
        text='Decides the visible preconditions of Kahn traversal for all graphs at once: connected-pin counting, None guards, seed/enqueue/yield-once shape, mirror image of the reverse order, one state-element predicate, level formula, fan-in marking, numeric bus-index sorting.',
        note='Not decided: completeness/ordering for every graph (Kahn correctness itself), prefix collisions.',
        ref='DESIGN.md 2/C17'),
})

CHECKS.update({
    'C03': dict(
        technique='static analysis: path enumeration over the loop body of _wave_eval with a parity abstraction of z_cur/inputs, symbolic interval domain [0, z_cap-1] for waveform accesses, sibling-arm comparison under renaming, symbolic evaluation of the stimulus tables over {TMIN, t, TMAX}, guard sets of the capture loops',
        text='Decides the parity invariant (z_cur & 1) == LUT(inputs) on all 16 loop-body paths including the overflow arm, in-bounds waveform accesses for every capacity >= 4, agreement of the four operand arms, the 8 stimulus cases of CPU and GPU assignment, and the final/initial reporting of both capture kernels.',
        note='Not decided: float32 sentinel absorption (needed for "starts at the Boolean function of the initial values"), loop termination, well-formedness of input waveforms.',
        ref='DESIGN.md 2/C03'),
    'C07': dict(
        technique='static analysis: table/column agreement of the three operand passes of SimOps.__init__, dominance/ordering lint on the loop nest (alloc inside per-op loop, free after it under c_reuse), structural rules on launch loops, GPU thread guards and store targets',
        text='Decides that level test, reference counting and release all use the same four stem-substituted operand columns, the level bookkeeping, release-after-level, ordered level launches with range guards, and that a thread only writes its own output waveform or adds atomically.',
        note='The step from these rules to "every operand is produced in an earlier level" is a two-line induction in DESIGN.md, not mechanised. Scratch-slot sharing by ops without outputs is not examined.',
        ref='DESIGN.md 2/C07'),
    'C08': dict(
        technique='static analysis: structural pin/alloc/alias/size rules on SimOps.__init__; path-wise symbolic effect analysis of Heap.alloc/Heap.free over a linear domain (chunk addresses/sizes as atoms, branch conditions as equalities, Gaussian elimination) on all 13 paths',
        text='Decides the map clauses (pins that are never removed, free discipline, capacity = allocated size, aliasing order incl. port forks, c_len after the last alloc) and, for the allocator, inductive-step invariants on every path: chunk intervals keep tiling the managed range (position-exact splits, merges only between provably adjacent chunks, positive sizes), the returned chunk has the requested size and is unlisted, deleted keys never stay in `released`, a surviving freed chunk is listed, chunks[] is only accessed at known keys, max_size follows every growth.',
        note='NOT decided: first-fit choice, ordering of `released`, completeness of coalescing (a missed merge keeps all invariants), and the composition of the invariants into the full no-overlap claim is argued, not mechanised.',
        ref='DESIGN.md 2/C08'),
})

CHECKS.update({
    'C04': dict(
        technique='static analysis: provenance lint of every time-valued assignment and waveform store in _wave_eval; dimension type inference (Time/Duration/Int/Literal lattice) over the whole kernel; guard sets of eat/lst updates',
        text='Decides, for all paths at once, that every emitted edge time is an operand edge time plus one delay entry of that operand\'s own line (static-timing window by induction with delays >= 0), and that the kernel is dimensionally well-typed, which is what makes it commute with shifting all times and with power-of-two scaling.',
        note='NOT decided: strict monotonicity of timestamps for polarity-independent delays, tightness of the window, float over/underflow. A change that only breaks those is not detected.',
        ref='DESIGN.md 2/C04'),
    'C06': dict(
        technique='static analysis: sibling comparison of CPU/GPU twin regions under explicit renamings with a tolerated-difference table, lane-variable flow lint over all 7 kernels, rebinding check of the delay-dataset selection, who-reads lint for c_reuse/strip_forks, attribute-existence check of cuda.*/numba.* against the mock classes',
        text='Decides code-path independence structurally: one kernel source for CPU and GPU, identical capture/assign/transfer twins, lane variable confined to the last array index, dataset selection before any delay lookup, options confined to the sites C07/C08 analyse, mock CUDA API completeness.',
        note='NOT decided: bit-identity of float results; effect of c_reuse/strip_forks is delegated to C07/C08; sampling (sd > 0) excluded as in the property.',
        ref='DESIGN.md 2/C06'),
    'C13': dict(
        technique='static analysis: guard-set analysis of both capture loops, tuple-position/column agreement (result tuple, GPU stores, op columns 6..8, a_ctrl row provenance), overflow pairing rule, finite evaluation of the nrise/nfall integer formulas against an alternation oracle',
        text='Decides which entries update initial/final/val/eat/lst/ovl (strict t < T), that result positions agree between CPU tuple, GPU stores and s[3..10], that a dropped edge is always counted and marks the terminator, that the count formulas are right for every waveform length, and that accumulation uses the output line\'s a_ctrl row with rise/fall weights in columns 7/8.',
        note='NOT decided: "overflow indicator clear => identical to unlimited capacity" beyond the pairing rule; sd > 0 sampling; concrete weighted sums.',
        ref='DESIGN.md 2/C13'),
})

CHECKS.update({
    'C14': dict(
        technique='static analysis: effect classification (accumulate vs key-overwriting store) of the flow from per-CELL results to DelayFile, grammar<->transformer agreement on the lark-compiled SDF grammar, sibling comparison of the two annotation methods, slot checks of the polarity table and pin lookups',
        text='Decides "none is lost" structurally: since the compiled grammar admits repeated CELL blocks and an optional instance id, the only sound collection is an accumulating one; plus arity/kind/exhaustiveness of all SDF callbacks, the edge-qualifier polarity table, empty-triple handling twins, array shape/axis constants and pin->line lookups.',
        note='NOT decided: value-level landing of each entry for arbitrary files; escaped-name handling beyond the replace() calls present.',
        ref='DESIGN.md 2/C14'),
    'C15': dict(
        technique='static analysis: folding of the interpret() if-chain into a finite alias map compared with the documented contract and the render string; attribute-existence check of every np.* reference against dir(numpy) of the repository environment; constant agreement (bitorder, plane count, axes) across all pack/unpack sites',
        text='Decides the character-table round trip for all eight values and every documented alias, that no removed numpy attribute is referenced anywhere in the package, and that all bit (un)packing sites share one bit order and the three-plane convention used by the bit-parallel operators.',
        note='NOT decided: losslessness for all shapes/pattern counts, padding lanes, signed-dtype padding, popcount on arbitrary arrays (numpy shape/view semantics).',
        ref='DESIGN.md 2/C15'),
    'C18': dict(
        technique='static analysis: single-source rule for the port/state ordering (whole package), sibling comparison of the scan-load blocks, loop-shape rules of StilFile._maps, exhaustive 8x8 truth table of mv_transition by abstract interpretation, grammar<->transformer agreement on the STIL grammar',
        text='Decides the necessary structural conditions of chain-order and inversion handling (reversed pass fills scan map and scan-out inversions, forward pass reversed once, "!" toggles), one ordering source (Circuit.s_nodes), twin assembly blocks, the full transition table and STIL callback agreement.',
        note='NOT decided: per-character placement for arbitrary chains and pattern sets, launch/capture call sequencing, signal-group order.',
        ref='DESIGN.md 2/C18'),
    'C20': dict(
        technique='static analysis: grammar<->transformer agreement over the lark-compiled DEF grammar with keyword-conditional arity/kind analysis, option-keyword agreement, may-be-None / may-be-missing attribute flow lint on the public properties, x/y symmetry and special/regular twin comparison by renaming',
        text='Decides for all 36 grammar rules that every handler reads positions and kinds the grammar can actually deliver (per dispatched keyword), that option names compared/stored exist in the grammar, that the public wire/via properties cannot hit None or a missing attribute and resolve wildcards, and that via expansion is symmetric in x and y.',
        note='NOT decided: value fidelity for arbitrary files; lexer ambiguities (ID vs NUMBER priority).',
        ref='DESIGN.md 2/C20'),
})

NOT_YET = {
}

CHECKS['C11'] = dict(
    technique='static analysis plus bounded evaluation: grammar<->transformer agreement on the lark-compiled Verilog and bench grammars; the Verilog transformer\'s own callbacks applied bottom-up (Engine M) to the parse trees of a family of module descriptions with stand-in graph classes, netlist compared with the meaning of the description; bench driver order',
    text='BOUNDED CLAIM. The behavioural statement of C11 ("simulates as the described netlist" for every netlist text) is decided for a family of 30 module descriptions (buses both ways, header vs declaration order, constants, concatenations, assigns both ways round, '
         'escaped names, unconnected and positional pins, two-output cells, undriven signals, one-bit vectors, supply-net names; with and without branch forks): ports, every pin connection, every output and the fork structure of the netlist the transformer builds equal what the '
         'description means. Beyond that family the claim rests on the shape of the code: callbacks agree with what the grammars deliver (arity, kind, exhaustiveness), the ignored-token terminal equals the comment language on all short strings, the transformer object is '
         'created per parse, bench creates cell + same-named fork with drivers in argument order.',
    note='NOT decided: netlist texts outside the evaluated family (other statement orders and declaration styles, chained assigns), whitespace/comment placement beyond the lexical rule, equivalence of the two formats, the bench transformer beyond its structural rule. '
         'A Verilog callback changed beyond the normal form that the evaluation cannot run ends the check with exit 2 (undecided), never a pass.',
    ref='DESIGN.md 2/C11, 6 and 8.6 (round 4)')

NOT_APPLICABLE = {
}


def main():
    props = [json.loads(l)['id'] for l in open(os.path.join(HERE, 'properties.jsonl'))]
    checks = []
    for pid in props:
        if pid in CHECKS:
            c = CHECKS[pid]
            checks.append({
                'property_id': pid,
                'quick_cmd': f'{PY} {pid} --tier quick',
                'thorough_cmd': f'{PY} {pid} --tier thorough',
                'evidence_file': f'/verif/evidence/{pid}.json',
                'replay_cmd_template': f'{PY} {pid} --replay {{path}}',
                'engine': 'kvstatic',
                'technique': c['technique'],
                'level_claimed': {'category': 'other', 'text': c['text'], 'design_ref': c['ref']},
                'level_note': c['note'],
            })
    # rules added in the second half of the build (DESIGN.md 8.6 round 2, 8.8): appended to the technique of the check that owns them
    EXTRA = {
        'C01': 'arity selection and the whole node -> op translation of SimOps evaluated (Engine M) on ~2400 stand-in nodes incl. helper methods; per-opcode specialisation of the dispatch chains; LogicSim.s_ppo_to_ppi evaluated on a state-array stand-in (mdim 1..3) against the documented transfer; C17 order rules (evaluated traversals) and the evaluated schedule / memory-map rules of C07/C08 included',
        'C02': 'operand-mutation and whole-array-condition rules of the truth-table interpreter; per-opcode specialisation of merged dispatch arms; views of signal memory bound to locals',
        'C03': 'operand-wiring rule of C01 included; interval refinement on any comparison linear in z_cur/z_cap; both stimulus paths (s_to_c vector code; wave_assign_gpu for every thread of its launch) evaluated on 18 stand-in simulators (checks/c03_eval.py); the kernel _wave_eval evaluated (Engine M with array stand-ins, checks/kernel_eval.py) on ~300 single-gate situations (1450 in the thorough tier): BOUNDED evaluation next to the path rules, and the deciding rule when a restructured merge loop is outside the shapes the path engine parses (clauses settle, bounds); both capture paths (c_to_s + wave_capture_cpu / wave_capture_gpu) evaluated on 36 waveforms x 3 lanes x 5 capture times x sd in {0, 0.75} against what the waveform encodes (checks/capture_eval.py) (rows initial / final)',
        'C04': 'schedule, memory-map, dataset-selection and lane-control rules of C06-C08 included; the kernel _wave_eval evaluated (Engine M with array stand-ins, checks/kernel_eval.py) on ~300 single-gate situations (1450 in the thorough tier): BOUNDED evaluation next to the path rules, and the deciding rule when a restructured merge loop is outside the shapes the path engine parses (clauses cause: every output time = operand time + its delay entry with distinguishable delay tables, shift, monotone); both capture paths (c_to_s + wave_capture_cpu / wave_capture_gpu) evaluated on 36 waveforms x 3 lanes x 5 capture times x sd in {0, 0.75} against what the waveform encodes (checks/capture_eval.py) (rows earliest / latest)',
        'C06': 'dataset selection evaluated for every mode with one/several datasets; absolute lane-control rule; no re-binding of kernel parameters; thread-index guards of the GPU kernels evaluated for every thread of an over-sized grid; sqrt(2) applied exactly once between c_to_s and the capture kernel; launch rules of C07 and overflow propagation (C13.overflow) included; both stimulus paths (s_to_c vector code; wave_assign_gpu for every thread of its launch) evaluated on 18 stand-in simulators (checks/c03_eval.py); both capture paths (c_to_s + wave_capture_cpu / wave_capture_gpu) evaluated on 36 waveforms x 3 lanes x 5 capture times x sd in {0, 0.75} against what the waveform encodes (checks/capture_eval.py) incl. CPU = GPU on s[3..7], s[10]; dtype flow of the capture sampling hash (F19); WaveSim / WaveSimCuda constructors evaluated with a recording base-class constructor (checks/wavesim_init_eval.py); kernel clause dataset (several delay datasets, every selection mode); WaveSim.s_ppo_to_ppi evaluated on a state-array stand-in against the three documented row moves (C06.transfer)',
        'C07': 'the schedule / memory-map block of SimOps.__init__ evaluated (kvstatic/mapeval.py) on 100 generated stand-in netlists x strip_forks x c_reuse x capacities with a reference allocator: level partition, operands produced in earlier levels, release only after the last reading level - in the per-op form and, when the block is vectorised (index arrays over all ops, np.where, fancy += with the buffered semantics of numpy), on the array stand-in (structural rules as fall-back); memory-map rules of C08 included; wave_eval_gpu evaluated for every thread of an over-sized grid with a recording kernel stub (which op row and lane each thread evaluates)',
        'C08': 'pins / alloc / alias / size decided by the evaluated schedule / memory-map block (see C07); `released` only changed by order-preserving operations; schedule rules of C07 included',
        'C09': 'C09.history: kyupy\'s own Node / Line / Circuit constructors, removers, copy(), pickling and stats evaluated along 300 generated edit histories against a shadow model of the documented semantics; free_index and remove_dangling_nodes evaluated; C10.function included',
        'C10': 'C10.function: substitute / resolve_tlib_cells / eliminate_1to1_forks evaluated on 11 synthetic library cells x every connected-pin pattern x three host styles and on the 71 distinct implementation shapes of the built-in libraries, compared by Boolean function of every port and state-element input; C09.history (copy / pickle) and C19 rules included',
        'C11': 'C11.netlist: the Verilog transformer applied bottom-up (Engine M) to the parse trees of 29 module descriptions with stand-in graph classes, netlist compared with the meaning of the description (ports, every pin connection, constants, assigns, branch forks); bounded-exhaustive comparison of the compiled ignore-terminal with the comment language; per-call transformer construction; C10.function and C19 rules included; a function changed beyond the normal form on which no rule fires ends the check with exit 2 (undecided), never a pass',
        'C12': 'operand-mutation rule, whole-array-condition (lane independence) rule, aliased call shapes used by LogicSim',
        'C13': 'explicit accumulation columns resolved through the unpacking of a_ctrl[line]; kernel rules of C03, operand-wiring rule of C01 and memory-map rules of C08 included; the kernel _wave_eval evaluated (Engine M with array stand-ins, checks/kernel_eval.py) on ~300 single-gate situations (1450 in the thorough tier): BOUNDED evaluation next to the path rules, and the deciding rule when a restructured merge loop is outside the shapes the path engine parses (clauses activity, overflow: marker clear => waveform equals the unlimited-capacity one); both capture paths (c_to_s + wave_capture_cpu / wave_capture_gpu) evaluated on 36 waveforms x 3 lanes x 5 capture times x sd in {0, 0.75} against what the waveform encodes (checks/capture_eval.py) (all rows s[3..10]); switching-activity epilogue evaluated with stale memory behind the waveform; abuf shape / element type from the evaluated WaveSim constructor',
        'C14': 'C14.records: SdfTransformer applied bottom-up to the parse tree of a small delay file; C14.landing: iopaths / interconnects evaluated on stand-in circuits (which delays[line, polarity] cell each entry lands in), array shape and axis move by recording stubs; per-call transformer construction; C11 rules included; the recording delay array accepts the method spelling transpose(3, 0, 1, 2) of moveaxis(-1, 0)',
        'C15': 'interpret() evaluated on every documented alias, foreign values and nested iterables; render table evaluated',
        'C16': 'memory-map rules of C08 included; nothing in the per-op iteration writes the output location after the callback was called (the callback sees the final value and what it writes stays); an iterable of the dispatch loop other than ops[:, :6] (helper method, generator over the level table) is evaluated: every op visited once, in op-list order (C16.columns, also C01/C02.columns); sibling agreement of the 2-valued callback loop with _prop_cpu per opcode, 16 rows each (C16.untouched)',
        'C17': 'C17.traverse: the five traversal generators evaluated on every digraph on <= 3 nodes (cut at state elements) and forward-edged graphs on 4 nodes against the stated contract; C17.locs: _locs / io_locs / s_locs evaluated on families of names; s_nodes evaluated; visit-counter width; C09.history included; helper methods of Circuit that the traversals call are evaluated with them',
        'C18': 'C18.maps: StilFile._maps evaluated on all chains of <= 5 entries; C18.extract: StilTransformer and StilFile.__init__ applied to the lark parse tree of a fixture STIL text; per-call transformer construction; StilFile methods never store into self',
        'C19': 'TechLib constructor evaluated on the five library texts with bench.parse replaced by a stand-in; pin_index / pin_is_output evaluated for every cell and pin; C01.wiring, C10.function (fork elimination of implementation circuits) included',
        'C20': 'C20.extract: DefTransformer applied to the lark parse tree of a fixture DEF text, every extracted field and the derived wire / via geometry compared with the text; DefWire/DefNet geometry properties (with the helper methods of their classes) evaluated on all short routing lists incl. segments that consist of vias only - undecided (exit 2) when outside the evaluator subset; per-call transformer construction',
    }
    for c in checks:
        if c['property_id'] in EXTRA:
            c['technique'] += '; ' + EXTRA[c['property_id']]
        c['technique'] += '. Input normalisation: functions whose normal form (semantics-preserving rewrites, kvstatic/canon.py) equals that of the reference copy are analysed in reference form'
    na = []
    for pid in props:
        if pid in CHECKS:
            continue
        if pid in NOT_APPLICABLE:
            na.append({'property_id': pid, 'reason': NOT_APPLICABLE[pid]})
        else:
            na.append({'property_id': pid, 'reason': NOT_YET.get(pid, 'check not built yet in this round (designed in DESIGN.md); not claimed until its engine exists')})
    man = {
        'version': 1,
        'setup_cmd': 'true',
        'hooks': {
            'guard': 'S_HOLST_KYUPY_VERIF',
            'enable': 'none needed: the checks read the source tree, nothing is executed or instrumented',
            'baseline_off_cmd': 'cd /repo && /venv/bin/python -m pytest -q -p no:cacheprovider --timeout=900',
            'source_commits': [],
            'add_only': True,
        },
        'engines': [
            {'name': 'kvstatic', 'path': '/verif/kvstatic', 'serves_properties': sorted(CHECKS),
             'kind_free_text': 'repository-specific static analysers over python ast: loader/resolver, constant folder, truth-table abstract interpreter, '
                               'path engine, sibling normaliser, ownership lint, grammar/transformer agreement, table/column agreement, normal-form/equivalence-modulo-refactoring engine, evaluator of code fragments on stand-in objects (Engine M)'},
        ],
        'checks': checks,
        'not_applicable': na,
        'notes': 'The checks parse /repo/src/kyupy/*.py on every run and never import kyupy. Besides the purely syntactic / abstract-interpretation rules, the rule groups named "evaluated" run fragments of the parsed code in an AST evaluator of their own (Engine M) on small stand-in inputs and compare with the stated contract - bounded evaluation, described with its limits in DESIGN.md 0.1. '
                 'exit 2 + ANALYSIS-ERROR means the analysis could not be carried out (anchor vanished / unmodelled construct), never a pass.',
    }
    with open(os.path.join(HERE, 'MANIFEST.json'), 'w') as f:
        json.dump(man, f, indent=1)
    print(f'{len(checks)} checks, {len(na)} not claimed')


if __name__ == '__main__':
    main()
