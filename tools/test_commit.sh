#!/bin/bash
# usage: test_commit.sh <commit-ish> [patch.diff]   - runs the pinned 31-test baseline on a scratch worktree of /repo
set -u
c=${1:-HEAD}
sha=$(git -C /repo rev-parse --short "$c")
wt=/tmp/kt_${sha}_$$
git -C /repo worktree add -q --detach "$wt" "$c" || exit 3
if [ -n "${2:-}" ]; then git -C "$wt" apply "$2" || { git -C /repo worktree remove --force "$wt"; exit 4; }; fi
cd "$wt" && PYTHONPATH="$wt/src" /venv/bin/python -m pytest -q -p no:cacheprovider --timeout=900 -x -n 8 2>&1 | tail -5
rc=${PIPESTATUS[0]}
cd / && git -C /repo worktree remove --force "$wt"
echo "TESTS commit=$sha rc=$rc"
exit $rc
