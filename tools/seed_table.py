#!/venv/bin/python
"""Prints the markdown table of confirmed seeded changes and the checks/rules that report them (from seeded/*/meta.json)."""
import glob, json, os
VERIF = os.path.dirname(os.path.dirname(os.path.abspath(__file__)))
rows = []
for f in sorted(glob.glob(f'{VERIF}/seeded/*/meta.json')):
    m = json.load(open(f))
    own = m['breaks_property']
    cb = m.get('caught_by', {})
    rules = sorted({r for r in cb.get(own, []) if r.startswith('C') and '.' in r and ' ' not in r})
    others = sorted(q for q in cb if q != own)
    patch = open(os.path.join(os.path.dirname(f), 'patch.diff')).read()
    files = sorted({l.split(' b/')[-1].strip().split('/')[-1] for l in patch.splitlines() if l.startswith('diff --git')})
    rows.append((m['id'], ', '.join(files), 'yes' if m.get('caught_by_own_check') else 'NO', ', '.join(rules) or '-', ', '.join(others) or '-'))
print('| seed | file(s) changed | reported by the property\'s own check | rule(s) of the own check that fire | also reported by |')
print('|------|-----------------|---------------------------------------|------------------------------------|------------------|')
for r in rows:
    print('| ' + ' | '.join(r) + ' |')
print(f'\n{len(rows)} confirmed seeds; {sum(1 for r in rows if r[2] == "yes")} reported by the check of the property they were written against.')
