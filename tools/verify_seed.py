#!/venv/bin/python
"""Verify a seeded property-breaking change and see which checks catch it.

usage: verify_seed.py <dir containing patch.diff and demo.py> <PROP> [--no-tests]

Steps (all in a scratch git worktree of /repo under /tmp, removed afterwards; /repo itself is never touched):
  1. demo.py on the unchanged tree          -> must exit 0
  2. git apply patch.diff                   -> must apply
  3. the 31-test baseline                   -> must pass
  4. demo.py on the changed tree            -> must exit non-zero
  5. every claimed check with --root <worktree>/src/kyupy -> which ones report a VIOLATION
Prints a JSON summary on the last line.
"""
import json
import os
import subprocess
import sys
import tempfile

VERIF = os.path.dirname(os.path.dirname(os.path.abspath(__file__)))


def sh(cmd, cwd=None, env=None, timeout=900):
    r = subprocess.run(cmd, shell=True, cwd=cwd, env=env, capture_output=True, text=True, timeout=timeout)
    return r.returncode, r.stdout + r.stderr


def main():
    d = os.path.abspath(sys.argv[1])
    prop = sys.argv[2]
    run_tests = '--no-tests' not in sys.argv
    wt = tempfile.mkdtemp(prefix='kvseed_')
    os.rmdir(wt)
    res = {'dir': d, 'property': prop}
    rc, out = sh(f'git -C /repo worktree add -q --detach {wt} HEAD')
    if rc:
        print(out)
        return 3
    try:
        env = dict(os.environ, PYTHONPATH=f'{wt}/src')
        rc, out = sh(f'/venv/bin/python {d}/demo.py', cwd=wt, env=env, timeout=600)
        res['demo_clean_rc'] = rc
        if rc:
            res['demo_clean_tail'] = out[-600:]
        rc, out = sh(f'git -C {wt} apply {d}/patch.diff')
        res['apply_rc'] = rc
        if rc:
            res['apply_err'] = out[-400:]
            print(json.dumps(res))
            return 1
        if run_tests:
            rc, out = sh('/venv/bin/python -m pytest -q -p no:cacheprovider --timeout=900 -n 8', cwd=wt, env=env, timeout=1200)
            res['tests_rc'] = rc
            res['tests_tail'] = out.strip().splitlines()[-1] if out.strip() else ''
        rc, out = sh(f'/venv/bin/python {d}/demo.py', cwd=wt, env=env, timeout=600)
        res['demo_mut_rc'] = rc
        res['demo_mut_tail'] = out.strip()[-300:]
        man = json.load(open(os.path.join(VERIF, 'MANIFEST.json')))
        caught = {}
        for c in man['checks']:
            pid = c['property_id']
            rc, out = sh(f'{VERIF}/check {pid} --root {wt}/src/kyupy', timeout=600)
            if rc != 0:
                rules = sorted(set(l.split('] ')[0].split('[')[-1] for l in out.splitlines() if ': [' in l and '] ' in l))
                caught[pid] = {'exit': rc, 'rules': rules, 'first': next((l.strip()[:300] for l in out.splitlines() if ': [' in l or 'ANALYSIS-ERROR' in l), '')}
        res['caught_by'] = caught
        res['caught_by_own'] = prop in caught and caught[prop]['exit'] == 1
        res['valid'] = res.get('demo_clean_rc') == 0 and res.get('demo_mut_rc', 0) != 0 and (not run_tests or res.get('tests_rc') == 0)
    finally:
        sh(f'git -C /repo worktree remove --force {wt}')
    print(json.dumps(res))
    return 0


if __name__ == '__main__':
    sys.exit(main())
