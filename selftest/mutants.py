"""Mutation corpus (seeded breaks the checks must report) and neutral edits (behaviour-preserving refactors
the checks must stay quiet on). Each entry is a text edit anchored on a unique source fragment of the current
tree; a fragment that no longer occurs makes the entry STALE (reported, never silently skipped)."""

M = []


def mut(prop, id, file, old=None, new=None, rule=None, **kw):
    M.append(dict(prop=prop, id=id, file=file, old=old, new=new, rule=rule, **kw))


def neutral(prop, id, file, old, new, **kw):
    M.append(dict(prop=prop, id=id, file=file, old=old, new=new, neutral=True, **kw))


# ------------------------------------------------------------------ C01
mut('C01', 'lut-ao21-literal', 'sim.py', 'AO21 = np.uint16(0b1111_1000_1111_1000)', 'AO21 = np.uint16(0b1111_1000_1110_1000)', 'C01.lut')
mut('C01', 'lut-mux-swap', 'sim.py', 'MUX21 = np.uint16(0b1100_1010_1100_1010)', 'MUX21 = np.uint16(0b1010_1100_1010_1100)', 'C01.lut')
mut('C01', 'njit-or-and', 'logic_sim.py', 'elif op == sim.OA21: c[o0] = (c[i0] | c[i1]) & c[i2]', 'elif op == sim.OA21: c[o0] = (c[i0] | c[i1]) | c[i2]', 'C01.branch')
mut('C01', 'cb-xnor3-drop-inv', 'logic_sim.py', 'elif op == sim.XNOR3: self.c[o0] = ~(self.c[i0] ^ self.c[i1] ^ self.c[i2])', 'elif op == sim.XNOR3: self.c[o0] = (self.c[i0] ^ self.c[i1] ^ self.c[i2])', 'C01.branch')
mut('C01', 'njit-missing-branch', 'logic_sim.py', '        elif op == sim.AOI211: c[o0] = ~((c[i0] & c[i1]) | c[i2] | c[i3])\n', '', 'C01.exhaust')
mut('C01', 'prefix-order', 'sim.py', "    'ao211': (AO211, AO211, AO211),\n", "", 'C01.prefix-order',
    edits=[dict(old="    'ao211': (AO211, AO211, AO211),\n", new=""), dict(old="    'ao21': (AO21, AO21, AO21),\n", new="    'ao21': (AO21, AO21, AO21),\n    'ao211': (AO211, AO211, AO211),\n")])
mut('C01', 'prefix-row-arity', 'sim.py', "'nor': (NOR4, NOR3, NOR2),", "'nor': (NOR4, NOR2, NOR3),", ['C01.prefix-row', 'C01.arity'])
mut('C01', 'arity-select-swapped', 'sim.py', 'if i3_idx == self.zero_idx:\n                        sp = prims[1]\n                        if i2_idx == self.zero_idx:', 'if i2_idx == self.zero_idx:\n                        sp = prims[1]\n                        if i3_idx == self.zero_idx:', 'C01.arity')
mut('C01', 'wiring-pin-cross', 'sim.py', 'i2_idx = n.ins[2].index if len(n.ins) > 2 and n.ins[2] is not None else self.zero_idx', 'i2_idx = n.ins[3].index if len(n.ins) > 3 and n.ins[3] is not None else self.zero_idx', 'C01.wiring')
mut('C01', 'wiring-dff-inversion', 'sim.py', 'ops.append((INV1, n.outs[1].index, inp_idx', 'ops.append((BUF1, n.outs[1].index, inp_idx', 'C01.wiring')
mut('C01', 'wiring-none-guard', 'sim.py', 'i1_idx = n.ins[1].index if len(n.ins) > 1 and n.ins[1] is not None else self.zero_idx', 'i1_idx = n.ins[1].index if len(n.ins) > 1 else self.zero_idx', 'C01.wiring')
mut('C01', 'c_to_s-wrong-bank', 'logic_sim.py', 'self.s[1, self.poppo_s_locs, :self.mdim] = self.c[self.poppo_c_locs]', 'self.s[0, self.poppo_s_locs, :self.mdim] = self.c[self.poppo_c_locs]', 'C01.plumbing')
mut('C01', 'cycle-order', 'logic_sim.py', '            self.c_prop(inject_cb)\n            self.c_to_s()\n', '            self.c_to_s()\n            self.c_prop(inject_cb)\n', 'C01.plumbing')
mut('C01', 'ppo-offset-swap', 'sim.py', 'self.po_c_locs = self.c_locs[self.ppo_offset+self.po_s_locs]', 'self.po_c_locs = self.c_locs[self.ppi_offset+self.po_s_locs]', 'C01.plumbing')
mut('C01', 'nbytes-floor', 'logic_sim.py', 'nbytes = (sims - 1) // 8 + 1', 'nbytes = sims // 8', 'C01.plumbing')
mut('C01', 'rebinding-order', 'logic_sim.py', 'def _prop_cpu(ops, c_locs, c):\n    for op, o0, i0, i1, i2, i3 in ops[:,:6]:\n        o0, i0, i1, i2, i3 = [c_locs[x] for x in (o0, i0, i1, i2, i3)]',
    'def _prop_cpu(ops, c_locs, c):\n    for op, o0, i0, i1, i2, i3 in ops[:,:6]:\n        o0, i0, i1, i2, i3 = [c_locs[x] for x in (o0, i1, i0, i2, i3)]', ['C01.rebind', 'C01.branch'])
neutral('C01', 'n-reorder-branches', 'logic_sim.py', '        elif op == sim.AO21: c[o0] = (c[i0] & c[i1]) | c[i2]\n        elif op == sim.OA21: c[o0] = (c[i0] | c[i1]) & c[i2]\n',
        '        elif op == sim.OA21: c[o0] = (c[i0] | c[i1]) & c[i2]\n        elif op == sim.AO21: c[o0] = (c[i0] & c[i1]) | c[i2]\n')
neutral('C01', 'n-reassociate', 'logic_sim.py', 'elif op == sim.AND3: c[o0] = c[i0] & c[i1] & c[i2]', 'elif op == sim.AND3: c[o0] = c[i0] & (c[i2] & c[i1])')
neutral('C01', 'n-demorgan-branch', 'logic_sim.py', 'elif op == sim.NOR2: c[o0] = ~(c[i0] | c[i1])', 'elif op == sim.NOR2: c[o0] = ~c[i0] & ~c[i1]')
neutral('C01', 'n-lut-hex', 'sim.py', 'AND2 = np.uint16(0b1000_1000_1000_1000)', 'AND2 = np.uint16(0x8888)  # same table')
neutral('C01', 'n-comment-blank', 'sim.py', '        # translate circuit structure into self.ops\n', '\n        # translate the circuit structure\n        # into self.ops\n\n')

# ------------------------------------------------------------------ C02
mut('C02', '4v-and-drop-zero-mask', 'logic.py', "        out[..., 0, :] &= inp[..., 0, :] | (any_unknown & ~any_zero)\n        out[..., 1, :] &= inp[..., 1, :] & ~any_unknown\n    return out\n\n\ndef bp8v_and",
    "        out[..., 0, :] &= inp[..., 0, :] | any_unknown\n        out[..., 1, :] &= inp[..., 1, :] & ~any_unknown\n    return out\n\n\ndef bp8v_and", 'C02.op')
mut('C02', '8v-or-first-only', 'logic.py', '    for inp in ins[1:]: any_one = any_one | (inp[..., 0, :] & inp[..., 1, :] & ~inp[..., 2, :])',
    '    for inp in ins[2:]: any_one = any_one | (inp[..., 0, :] & inp[..., 1, :] & ~inp[..., 2, :])', 'C02.op')
mut('C02', '8v-mux-wrong-temp', 'logic_sim.py', '                    logic.bp8v_and(self.c[t1], self.c[i1], self.c[i2])\n                    logic.bp8v_or(self.c[o0], self.c[t0], self.c[t1])', '                    logic.bp8v_and(self.c[t0], self.c[i1], self.c[i2])\n                    logic.bp8v_or(self.c[o0], self.c[t0], self.c[t1])', 'C02.comp')
mut('C02', '4v-aoi22-no-invert', 'logic_sim.py', '                    logic.bp4v_or(self.c[o0], self.c[t0], self.c[t1])\n                    logic.bp4v_not(self.c[o0], self.c[o0])\n                elif op == sim.OA22:', '                    logic.bp4v_or(self.c[o0], self.c[t0], self.c[t1])\n                elif op == sim.OA22:', 'C02.comp')
mut('C02', '8v-alias-and', 'logic_sim.py', 'elif op == sim.NAND2: logic.bp8v_and(self.c[o0], self.c[i0], self.c[i1]); logic.bp8v_not(self.c[o0], self.c[o0])',
    'elif op == sim.NAND2: logic.bp8v_not(self.c[o0], self.c[i0]); logic.bp8v_not(self.c[t0], self.c[i1]); logic.bp8v_or(self.c[o0], self.c[o0], self.c[t0])', ['C02.alias', 'C02.comp'])
mut('C02', '8v-xor-as-andor', 'logic_sim.py', 'elif op == sim.XOR2: logic.bp8v_xor(self.c[o0], self.c[i0], self.c[i1])',
    'elif op == sim.XOR2:\n                    logic.bp8v_not(self.c[t0], self.c[i1])\n                    logic.bp8v_and(self.c[t0], self.c[i0], self.c[t0])\n                    logic.bp8v_not(self.c[t1], self.c[i0])\n                    logic.bp8v_and(self.c[t1], self.c[t1], self.c[i1])\n                    logic.bp8v_or(self.c[o0], self.c[t0], self.c[t1])', ['C02.comp', 'C02.alias'])
mut('C02', 'scratch-same-slot', 'logic_sim.py', 't1 = self.c_locs[self.tmp2_idx]', 't1 = self.c_locs[self.tmp_idx]', 'C02.scratch')
mut('C02', 'unassigned-init', 'logic_sim.py', 'self.s[:,:,1,:] = 255  # unassigned', 'self.s[:,:,0,:] = 255  # unassigned', 'C02.init')
mut('C02', '8v-not-keeps-unassigned', 'logic.py', 'def bp8v_not(out, inp):\n    unknown = (inp[..., 0, :] ^ inp[..., 1, :]) & ~inp[..., 2, :]\n    out[..., 0, :] = ~inp[..., 0, :] | unknown', 'def bp8v_not(out, inp):\n    unknown = (inp[..., 0, :] ^ inp[..., 1, :]) & ~inp[..., 2, :]\n    out[..., 0, :] = ~inp[..., 0, :]', 'C02.op')
neutral('C02', 'n-mux-other-temps', 'logic_sim.py', '                    logic.bp8v_not(self.c[t1], self.c[i2])\n                    logic.bp8v_and(self.c[t0], self.c[i0], self.c[t1])\n                    logic.bp8v_and(self.c[t1], self.c[i1], self.c[i2])\n                    logic.bp8v_or(self.c[o0], self.c[t0], self.c[t1])',
        '                    logic.bp8v_not(self.c[t0], self.c[i2])\n                    logic.bp8v_and(self.c[t1], self.c[i0], self.c[t0])\n                    logic.bp8v_and(self.c[t0], self.c[i2], self.c[i1])\n                    logic.bp8v_or(self.c[o0], self.c[t1], self.c[t0])')
neutral('C02', 'n-ao211-nested-or', 'logic_sim.py', '                    logic.bp8v_and(self.c[t0], self.c[i0], self.c[i1])\n                    logic.bp8v_or(self.c[o0], self.c[t0], self.c[i2], self.c[i3])\n                elif op == sim.AOI211:',
        '                    logic.bp8v_and(self.c[t0], self.c[i0], self.c[i1])\n                    logic.bp8v_or(self.c[t1], self.c[i2], self.c[i3])\n                    logic.bp8v_or(self.c[o0], self.c[t0], self.c[t1])\n                elif op == sim.AOI211:')

# ------------------------------------------------------------------ C12
mut('C12', 'mv-and-activity-lost', 'logic.py', '        np.bitwise_or(out, inp & 0b100, out=out, where=~any_zero)\n    np.putmask(out, (any_unknown & ~any_zero), UNKNOWN)', '    np.putmask(out, (any_unknown & ~any_zero), UNKNOWN)', 'C12.mv')
mut('C12', 'mv-not-restore', 'logic.py', 'np.putmask(out, (inp == UNKNOWN), UNKNOWN)  # restore UNKNOWN', 'np.putmask(out, (inp == UNASSIGNED), UNASSIGNED)', 'C12.mv')
mut('C12', 'mv-or-swapped-args', 'logic.py', '    _mv_xor(out, x1, x2)\n', '    _mv_xor(out, x1, x1)\n', 'C12.wrap')
mut('C12', 'out-truthiness', 'logic.py', '    if out is None: out = np.empty(np.broadcast(init, final).shape, dtype=np.uint8)', '    out = out or np.empty(np.broadcast(init, final).shape, dtype=np.uint8)', 'C12.out')
mut('C12', 'out-not-returned', 'logic.py', '    _mv_and(out, x1, x2)\n    return out', '    _mv_and(out, x1, x2)\n    return out.copy()', 'C12.out')
mut('C12', 'bp8v-xor-activity-and', 'logic.py', '        out[..., 1, :] ^= inp[..., 1, :]\n        out[..., 2, :] |= inp[..., 2, :]', '        out[..., 1, :] ^= inp[..., 1, :]\n        out[..., 2, :] ^= inp[..., 2, :]', ['C12.bp', 'C12.agree'])
mut('C12', 'lane-dependent-const', 'logic.py', 'def bp4v_xor(out, *ins):\n    out[...] = 0', 'def bp4v_xor(out, *ins):\n    out[...] = 0\n    out[..., 0, :] |= 0x80', 'C12.lanewise')
mut('C12', 'axis-specific', 'logic.py', 'def bp4v_not(out, inp):\n    unknown = inp[..., 0, :] ^ inp[..., 1, :]', 'def bp4v_not(out, inp):\n    unknown = inp[..., 0, :] ^ inp[..., 1, :1]', 'C12.lanewise')
mut('C12', 'const-values', 'logic.py', 'RISE = 0b101', 'RISE = 0b110', 'C12.consts', edits=[dict(old='RISE = 0b101', new='RISE = 0b110'), dict(old='FALL = 0b110', new='FALL = 0b101')])
neutral('C12', 'n-and-mask-rewrite', 'logic.py', '        out[..., 1, :] &= inp[..., 1, :] & ~any_unknown\n    return out\n\n\ndef bp8v_and', '        out[..., 1, :] &= ~any_unknown & inp[..., 1, :]\n    return out\n\n\ndef bp8v_and')
neutral('C12', 'n-out-if-block', 'logic.py', '    if out is None: out = np.empty(x1.shape, dtype=np.uint8)\n', '    if out is None:\n        out = np.empty(x1.shape, dtype=np.uint8)\n')

# ------------------------------------------------------------------ C05
mut('C02', '8v-and-activity-unmasked', 'logic.py', '        out[..., 2, :] |= inp[..., 2, :] & (~any_unknown | any_zero) & ~any_zero', '        out[..., 2, :] |= inp[..., 2, :] & (~any_unknown | any_zero)', 'C02.op')
mut('C02', 'mux-via-xor', 'logic_sim.py', '                    logic.bp8v_not(self.c[t1], self.c[i2])\n                    logic.bp8v_and(self.c[t0], self.c[i0], self.c[t1])\n                    logic.bp8v_and(self.c[t1], self.c[i1], self.c[i2])\n                    logic.bp8v_or(self.c[o0], self.c[t0], self.c[t1])',
    '                    logic.bp8v_xor(self.c[t0], self.c[i0], self.c[i1])\n                    logic.bp8v_and(self.c[t1], self.c[t0], self.c[i2])\n                    logic.bp8v_xor(self.c[o0], self.c[i0], self.c[t1])', 'C02.comp')
mut('C05', 'lut-shifted', 'wave_sim.py', 'if (z_cur & 1) != ((lut >> inputs) & 1):', 'if (z_cur & 1) != ((lut >> (inputs ^ 1)) & 1):', 'C05.sameops')
mut('C05', 'or-controlling-any', 'logic.py', '    any_one = ins[0][..., 0, :] & ins[0][..., 1, :] & ~ins[0][..., 2, :]\n', '    any_one = ins[0][..., 0, :] & ins[0][..., 1, :]\n', ['C05.hazard', 'C05.initfinal'])
mut('C05', '8v-xor-activity-lost', 'logic.py', '        out[..., 1, :] ^= inp[..., 1, :]\n        out[..., 2, :] |= inp[..., 2, :]\n', '        out[..., 1, :] ^= inp[..., 1, :]\n', ['C05.hazard', 'C05.initfinal'])
mut('C05', 'wavesim-own-ops', 'wave_sim.py', 'class WaveSim(sim.SimOps):', 'class WaveSim(object):', 'C05.sameops')

# ------------------------------------------------------------------ C16
mut('C16', 'cb-location-identity', 'logic_sim.py', 'if o0l < len(self.circuit.lines): inject_cb(self.circuit.lines[o0l], self.c[o0])', 'if o0l < len(self.circuit.lines): inject_cb(self.circuit.lines[o0], self.c[o0])', 'C16.identity')
mut('C16', 'cb-copy-view', 'logic_sim.py', '                if inject_cb is not None and o0l < len(self.circuit.lines): inject_cb(self.circuit.lines[o0l], self.c[o0])\n        else:', '                if inject_cb is not None and o0l < len(self.circuit.lines): inject_cb(self.circuit.lines[o0l], self.c[o0].copy())\n        else:', 'C16.view')
mut('C16', 'cb-4v-dropped', 'logic_sim.py', '                if inject_cb is not None and o0l < len(self.circuit.lines): inject_cb(self.circuit.lines[o0l], self.c[o0])\n        else:', '        else:', 'C16.presence')
mut('C16', 'cb-inside-branch', 'logic_sim.py', '                    logic.bp8v_or(self.c[o0], self.c[t0], self.c[t1])\n                else: print(f\'unknown op {op}\')\n                if inject_cb is not None and o0l < len(self.circuit.lines): inject_cb(self.circuit.lines[o0l], self.c[o0])\n\n',
    '                    logic.bp8v_or(self.c[o0], self.c[t0], self.c[t1])\n                    if inject_cb is not None and o0l < len(self.circuit.lines): inject_cb(self.circuit.lines[o0l], self.c[o0])\n                else: print(f\'unknown op {op}\')\n\n', 'C16.presence')
mut('C16', 'cb-extra-guard', 'logic_sim.py', '                if inject_cb is not None and o0l < len(self.circuit.lines): inject_cb(self.circuit.lines[o0l], self.c[o0])\n\n', '                if inject_cb is not None and o0l < len(self.circuit.lines) and op != sim.BUF1: inject_cb(self.circuit.lines[o0l], self.c[o0])\n\n', 'C16.presence')
mut('C16', 'cb-not-forwarded', 'logic_sim.py', '            self.c_prop(inject_cb)', '            self.c_prop()', 'C16.forward')
mut('C16', 'cb-s-array', 'logic_sim.py', 'if o0l < len(self.circuit.lines): inject_cb(self.circuit.lines[o0l], self.c[o0])', 'if o0l < len(self.circuit.lines): inject_cb(self.circuit.lines[o0l], self.s[o0])', 'C16.view')
neutral('C16', 'n-cb-nested-if', 'logic_sim.py', '                if inject_cb is not None and o0l < len(self.circuit.lines): inject_cb(self.circuit.lines[o0l], self.c[o0])\n\n', '                if inject_cb is not None:\n                    if o0l < len(self.circuit.lines):\n                        inject_cb(self.circuit.lines[o0l], self.c[o0])\n\n')

# ------------------------------------------------------------------ C19
mut('C19', 'adder-swap', 'techlib.py', 'HA_X1 input(A,B) output(CO,S) S=XOR2(A,B) CO=AND2(A,B) ;', 'HA_X1 input(A,B) output(CO,S) CO=XOR2(A,B) S=AND2(A,B) ;', 'C19.func')
mut('C19', 'aoi21-pin-group', 'techlib.py', 'AOI21_X{1,2,4} input(A,B1,B2)     output(ZN) ZN=AOI21(B1,B2,A)     ;', 'AOI21_X{1,2,4} input(A,B1,B2)     output(ZN) ZN=AOI21(A,B1,B2)     ;', 'C19.func')
mut('C19', 'mux41-select', 'techlib.py', 'MUX41X{1,2}$ input(A1,A2,A3,A4,S0,S1) output(Y) A=MUX21(A1,A2,S0) B=MUX21(A3,A4,S0) Y=MUX21(A,B,S1) ;', 'MUX41X{1,2}$ input(A1,A2,A3,A4,S0,S1) output(Y) A=MUX21(A1,A2,S1) B=MUX21(A3,A4,S1) Y=MUX21(A,B,S0) ;', 'C19.func')
mut('C19', 'oai33-group', 'techlib.py', 'OAI33_X1 input(A1,A2,A3,B1,B2,B3) output(ZN) AA=OR2(A1,A2) BB=OR2(B1,B2) ZN=OAI22(AA,A3,BB,B3) ;', 'OAI33_X1 input(A1,A2,A3,B1,B2,B3) output(ZN) AA=OR2(A1,A2) BB=OR2(B1,B2) ZN=OAI22(AA,B3,BB,A3) ;', 'C19.func')
mut('C19', 'output-unassigned', 'techlib.py', 'XNOR3X{1,2}$     input(A1,A2,A3)    output(Y) Y=XNOR3(A1,A2,A3)    ;', 'XNOR3X{1,2}$     input(A1,A2,A3)    output(Y) Z=XNOR3(A1,A2,A3)    ;', 'C19.pins')
mut('C19', 'dup-name', 'techlib.py', 'NAND2X{0,1,2,4}$ input(IN1,IN2)         output(QN) QN=NAND2(IN1,IN2)         ;', 'NAND2X{0,1,2,4}$ input(IN1,IN2)         output(QN) QN=NAND2(IN1,IN2)         ;\nNAND2X{4,8}$ input(IN1,IN2)         output(QN) QN=NAND2(IN1,IN2)         ;', 'C19.expand')
mut('C19', 'unknown-prim', 'techlib.py', 'ISOLAND{,AO}X{1,2,4,8}$ input(ISO,D) output(Q) ISOB=NOT1(ISO) Q=AND2(ISOB,D) ;\nISOLOR{,AO}X{1,2,4,8}$  input(ISO,D) output(Q) Q=OR2(ISO,D)  ;\n\nAO21X{1,2}$  input(IN1', 'ISOLAND{,AO}X{1,2,4,8}$ input(ISO,D) output(Q) ISOB=NEG1(ISO) Q=AND2(ISOB,D) ;\nISOLOR{,AO}X{1,2,4,8}$  input(ISO,D) output(Q) Q=OR2(ISO,D)  ;\n\nAO21X{1,2}$  input(IN1', 'C19.prim')
mut('C19', 'shared-counter', 'techlib.py', "                    pin_dict[n.name] = (o_idx, True)\n                    o_idx += 1", "                    pin_dict[n.name] = (i_idx, True)\n                    i_idx += 1", 'C19.ctor')
mut('C19', 'xor3-as-xor2', 'techlib.py', 'XOR3X{1,2}$      input(IN1,IN2,IN3)     output(Q)   Q=XOR3(IN1,IN2,IN3)      ;', 'XOR3X{1,2}$      input(IN1,IN2,IN3)     output(Q)   Q=XOR2(IN1,IN2)      ;', 'C19.func')
neutral('C19', 'n-ao22-operand-order', 'techlib.py', 'AOI22X1 input(A0,A1,B0,B1)       output(Y)    Y=AOI22(A0,A1,B0,B1) ;', 'AOI22X1 input(A0,A1,B0,B1)       output(Y)    Y=AOI22(B1,B0,A1,A0) ;')
neutral('C19', 'n-whitespace', 'techlib.py', 'OR2X1       input(A,B)     output(Y) Y=OR2(A,B)       ;', 'OR2X1  input(A, B) output(Y)   Y = OR2(A, B) ;')

# ------------------------------------------------------------------ C17
mut('C17', 'len-readiness', 'circuit.py', 'if visit_count[succ] == sum(l is not None for l in succ.ins) and', 'if visit_count[succ] == len(succ.ins) and', 'C17.count')
mut('C17', 'reverse-unguarded', 'circuit.py', '            for line in n.ins:\n                if line is None: continue\n                pred = line.driver', '            for line in n.ins:\n                pred = line.driver', 'C17.none')
mut('C17', 'latch-not-cut', 'circuit.py', "if visit_count[succ] == sum(l is not None for l in succ.ins) and 'dff' not in succ.kind.lower() and 'latch' not in succ.kind.lower():", "if visit_count[succ] == sum(l is not None for l in succ.ins) and 'dff' not in succ.kind.lower():", ['C17.kahn', 'C17.pred', 'C17.traverse'])
mut('C17', 'case-sensitive-pred', 'circuit.py', "return list(self.io_nodes) + [n for n in self.nodes if 'dff' in n.kind.lower()]", "return list(self.io_nodes) + [n for n in self.nodes if 'DFF' in n.kind]", 'C17.pred')
mut('C17', 'lifo-queue', 'circuit.py', '        while len(queue) > 0:\n            n = queue.popleft()\n            for line in n.outs:', '        while len(queue) > 0:\n            n = queue.pop()\n            for line in n.outs:', ['C17.kahn', 'C17.mirror', 'C17.traverse'])
mut('C17', 'level-min', 'circuit.py', 'l = level[[l.driver.index for l in n.ins if l is not None]].max() + 1', 'l = level[[l.driver.index for l in n.ins if l is not None]].min() + 1', ['C17.level', 'C17.traverse'])
mut('C17', 'fanin-driver', 'circuit.py', 'marks[n] |= marks[line.reader]', 'marks[n] |= marks[line.driver]', ['C17.fanin', 'C17.traverse'])
mut('C17', 'locs-lexicographic', 'circuit.py', "path = [m[1]] + [int(v) for v in re.split(r'[_\\[\\]]+', m[2]) if len(v) > 0]", "path = [m[1]] + [v for v in re.split(r'[_\\[\\]]+', m[2]) if len(v) > 0]", 'C17.locs')
mut('C17', 'mirror-broken', 'circuit.py', '                visit_count[pred] += 1\n', '                visit_count[pred] += 1\n                if len(pred.ins) > 3: continue\n', ['C17.mirror', 'C17.kahn'])
neutral('C17', 'n-enqueue-geq', 'circuit.py', 'if visit_count[pred] == sum(l is not None for l in pred.outs) and', 'if visit_count[pred] >= sum(l is not None for l in pred.outs) and')  # equivalent: a visit count never exceeds the number of connected pins
neutral('C17', 'n-count-idiom', 'circuit.py', 'if visit_count[succ] == sum(l is not None for l in succ.ins) and', 'if visit_count[succ] == len([l for l in succ.ins if l is not None]) and', edits=[
    dict(old='if visit_count[succ] == sum(l is not None for l in succ.ins) and', new='if visit_count[succ] == len([l for l in succ.ins if l is not None]) and'),
    dict(old='if visit_count[pred] == sum(l is not None for l in pred.outs) and', new='if visit_count[pred] == len([l for l in pred.outs if l is not None]) and')])

# ------------------------------------------------------------------ C09
mut('C09', 'swap-index-lost', 'circuit.py', '            replacement = self.pop()\n            replacement.index = index\n', '            replacement = self.pop()\n', 'C09.swap')
mut('C09', 'foreign-index-write', 'circuit.py', '            n.remove()\n            out_line.remove()\n            in_line.reader = out_reader', '            n.remove()\n            out_line.remove()\n            in_line.index = in_line.index\n            in_line.reader = out_reader', 'C09.index')
mut('C09', 'backref-missing', 'circuit.py', '            in_line.reader_pin = out_reader_pin\n            in_line.reader.ins[in_line.reader_pin] = in_line\n', '            in_line.reader_pin = out_reader_pin\n', 'C09.backref')
mut('C09', 'remove-no-squeeze-renumber', 'circuit.py', '                for i, l in enumerate(self.driver.outs): l.driver_pin = i\n', '', 'C09.remove')
mut('C09', 'remove-order', 'circuit.py', '        if self.reader is not None: self.reader.ins[self.reader_pin] = None\n        if self.circuit is not None: del self.circuit.lines[self.index]\n        self.driver = None\n        self.reader = None',
    '        if self.circuit is not None: del self.circuit.lines[self.index]\n        self.driver = None\n        self.reader = None\n        if self.reader is not None: self.reader.ins[self.reader_pin] = None', 'C09.remove')
mut('C09', 'direct-container-write', 'bench.py', "        cell = Node(self.c, str(name), str(cell_type))\n", "        cell = Node(self.c, str(name), str(cell_type))\n        self.c.cells[str(name).lower()] = cell\n", 'C09.containers')
mut('C09', 'wrong-dict-on-remove', 'circuit.py', "            if self.kind == '__fork__':\n                del self.circuit.forks[self.name]\n            else:\n                del self.circuit.cells[self.name]", "            if self.kind != '__fork__':\n                del self.circuit.forks[self.name]\n            else:\n                del self.circuit.cells[self.name]", 'C09.containers')
mut('C09', 'free-index-wrong-list', 'circuit.py', 'if not isinstance(reader, tuple): reader = (reader, reader.ins.free_index())', 'if not isinstance(reader, tuple): reader = (reader, reader.outs.free_index())', 'C09.ctor')
mut('C09', 'stats-wrong-container', 'circuit.py', "stats['__cell__'] = len(self.cells)", "stats['__cell__'] = len(self.nodes)", 'C09.stats')
neutral('C09', 'n-index-before-append', 'circuit.py', '        circuit.nodes.append(self)\n        self.circuit = circuit', '        self.circuit = circuit', edits=[dict(old='        circuit.nodes.append(self)\n        self.circuit = circuit', new='        self.circuit = circuit'), dict(old='        self.index = len(circuit.nodes) - 1\n', new='        self.index = len(circuit.nodes)\n        circuit.nodes.append(self)\n')])  # equivalent: len() before the append is len() - 1 after it
neutral('C09', 'n-blank-lines', 'circuit.py', '        self.driver = None\n        self.reader = None\n        self.circuit = None\n', '        self.driver = None\n\n        self.reader = None\n        # done\n        self.circuit = None\n')

# ------------------------------------------------------------------ C10
mut('C10', 'pickle-tuple-order', 'circuit.py', 'lines = [(line.driver.index, line.driver_pin, line.reader.index, line.reader_pin) for line in self.lines]', 'lines = [(line.driver.index, line.reader.index, line.driver_pin, line.reader_pin) for line in self.lines]', 'C10.pickle')
mut('C10', 'copy-implicit-pins', 'circuit.py', '            Line(c, (d, line.driver_pin), (r, line.reader_pin))', '            Line(c, d, r)', 'C10.copy')
mut('C10', 'copy-reader-kind', 'circuit.py', "r = c.forks[line.reader.name] if line.reader.kind == '__fork__' else c.cells[line.reader.name]", "r = c.forks[line.reader.name] if line.driver.kind == '__fork__' else c.cells[line.reader.name]", 'C10.copy')
mut('C10', 'elim-no-snapshot', 'circuit.py', 'for n in list(self.forks.values()):', 'for n in self.forks.values():', 'C10.elim')
mut('C10', 'elim-io-not-skipped', 'circuit.py', '            if n in ios: continue\n            if len(n.outs) != 1: continue', '            if len(n.outs) != 1: continue', 'C10.elim')
mut('C10', 'resolve-no-snapshot', 'circuit.py', '        for n in list(self.nodes):\n            if n.kind in tlib.cells:', '        for n in self.nodes:\n            if n.kind in tlib.cells:', 'C10.resolve')
mut('C10', 'sub-fork-threshold', 'circuit.py', 'elif len(n.ins) == 0 and len(n.outs) > 1:  # input is read by multiple nodes, need to add fork.', 'elif len(n.ins) == 0 and len(n.outs) > 2:  # input is read by multiple nodes, need to add fork.', 'C10.keys')
mut('C10', 'sub-drop-unread-removed', 'circuit.py', '            if len(inn.outs) == 0:  # input is not read by impl. circuit, drop the connection.\n                ll.reader = None\n                ll.remove()\n                continue\n', '', 'C10.keys')
mut('C10', 'sub-pin-cross', 'circuit.py', '                ll.reader = node_map[l.reader]\n                ll.reader_pin = l.reader_pin', '                ll.reader = node_map[l.reader]\n                ll.reader_pin = l.driver_pin', 'C10.pins')
mut('C10', 'sub-out-pin', 'circuit.py', '                ll.driver = node_map[l.driver]\n                ll.driver_pin = l.driver_pin', '                ll.driver = node_map[l.driver]\n                ll.driver_pin = 0', 'C10.pins')
mut('C10', 'sub-rename-node', 'circuit.py', '            node.kind = designated_cell.kind\n', '            node.kind = designated_cell.kind\n            node.name = f\'{node.name}~{designated_cell.name}\'\n', 'C10.names')
mut('C10', 'setstate-lines-before-nodes', 'circuit.py', "        for s in state['nodes']:\n            Node(self, *s)\n        for driver, driver_pin, reader, reader_pin in state['lines']:\n            Line(self, (self.nodes[driver], driver_pin), (self.nodes[reader], reader_pin))",
    "        for driver, driver_pin, reader, reader_pin in state['lines']:\n            Line(self, (self.nodes[driver], driver_pin), (self.nodes[reader], reader_pin))\n        for s in state['nodes']:\n            Node(self, *s)", 'C10.pickle')

# ------------------------------------------------------------------ C07
mut('C07', 'level-test-drops-operand', 'sim.py', 'if levels[i0_idx] >= current_level or levels[i1_idx] >= current_level or levels[i2_idx] >= current_level or levels[i3_idx] >= current_level:', 'if levels[i0_idx] >= current_level or levels[i1_idx] >= current_level or levels[i2_idx] >= current_level:', ['C07.operands', 'C07.level', 'C07.release', 'C08.pins', 'C08.alloc'])
mut('C07', 'level-no-stem', 'sim.py', '            i1_idx = stems[op[3]] if stems[op[3]] >= 0 else op[3]\n            i2_idx = stems[op[4]] if stems[op[4]] >= 0 else op[4]\n            i3_idx = stems[op[5]] if stems[op[5]] >= 0 else op[5]\n            if levels', '            i1_idx = op[3]\n            i2_idx = stems[op[4]] if stems[op[4]] >= 0 else op[4]\n            i3_idx = stems[op[5]] if stems[op[5]] >= 0 else op[5]\n            if levels', ['C07.operands', 'C07.level', 'C07.release', 'C08.pins', 'C08.alloc'])
mut('C07', 'level-gt', 'sim.py', 'levels[i3_idx] >= current_level:', 'levels[i3_idx] > current_level:', ['C07.operands', 'C07.level', 'C07.release', 'C08.pins', 'C08.alloc'])
mut('C07', 'level-set-in-if', 'sim.py', '                level_starts.append(i)\n            levels[op[1]] = current_level  # set level of the output line', '                level_starts.append(i)\n                levels[op[1]] = current_level  # set level of the output line', 'C07.level')
mut('C07', 'free-in-op-loop', 'sim.py', '                self.c_locs[o_idx], self.c_caps[o_idx] = h.alloc(cap), cap\n            if c_reuse:\n                for loc in free_set:\n                    h.free(loc)', '                self.c_locs[o_idx], self.c_caps[o_idx] = h.alloc(cap), cap\n                if c_reuse:\n                    for loc in free_set:\n                        h.free(loc)\n                    free_set = set()', 'C07.release')
mut('C07', 'free-unguarded', 'sim.py', '            if c_reuse:\n                for loc in free_set:\n                    h.free(loc)', '            for loc in free_set:\n                h.free(loc)', 'C07.release')
mut('C07', 'gpu-no-stop-guard', 'wave_sim.py', '    if sim >= sim_stop: return\n    if op_idx >= op_stop: return\n\n    op = ops[op_idx]', '    if sim >= sim_stop: return\n\n    op = ops[op_idx]', 'C07.launch')
mut('C07', 'cpu-range-off', 'wave_sim.py', '    for op_idx in range(op_start, op_stop):\n        op = ops[op_idx]', '    for op_idx in range(op_start, op_stop - 1):\n        op = ops[op_idx]', 'C07.launch')
mut('C07', 'gpu-plain-add', 'wave_sim.py', '        cuda.atomic.add(abuf, (a_loc, sim), nrise*a_wr + nfall*a_wf)', '        abuf[a_loc, sim] += nrise*a_wr + nfall*a_wf', 'C07.writes')
mut('C07', 'level-stops-short', 'sim.py', "self.level_stops = np.asarray(level_starts[1:] + [len(self.ops)], dtype='int32')", "self.level_stops = np.asarray(level_starts[1:] + [len(self.ops) - 1], dtype='int32')", 'C07.level')
mut('C07', 'decrement-no-stem', 'sim.py', '                i0_idx = stems[op[2]] if stems[op[2]] >= 0 else op[2]\n                i1_idx = stems[op[3]] if stems[op[3]] >= 0 else op[3]\n                i2_idx = stems[op[4]] if stems[op[4]] >= 0 else op[4]\n                i3_idx = stems[op[5]] if stems[op[5]] >= 0 else op[5]\n                ref_count[i0_idx] -= 1',
    '                i0_idx = op[2]\n                i1_idx = stems[op[3]] if stems[op[3]] >= 0 else op[3]\n                i2_idx = stems[op[4]] if stems[op[4]] >= 0 else op[4]\n                i3_idx = stems[op[5]] if stems[op[5]] >= 0 else op[5]\n                ref_count[i0_idx] -= 1', ['C07.operands', 'C07.level', 'C07.release', 'C08.pins', 'C08.alloc'])

# ------------------------------------------------------------------ C08
mut('C08', 'ppo-pin-no-stem', 'sim.py', '                i0_idx = stems[n.ins[0]] if stems[n.ins[0]] >= 0 else n.ins[0]\n                ref_count[i0_idx] += 1', '                ref_count[n.ins[0]] += 1', 'C08.pins')
mut('C08', 'ppo-pin-dropped', 'sim.py', '                i0_idx = stems[n.ins[0]] if stems[n.ins[0]] >= 0 else n.ins[0]\n                ref_count[i0_idx] += 1', '                pass', 'C08.pins')
neutral('C08', 'n-tmp2-not-pinned', 'sim.py', '        ref_count[self.tmp2_idx] += 1\n', '')  # equivalent: the scratch slot is never an operand, so its count is never decremented
mut('C08', 'cap-mismatch', 'sim.py', 'self.c_locs[o_idx], self.c_caps[o_idx] = h.alloc(cap), cap', 'self.c_locs[o_idx], self.c_caps[o_idx] = h.alloc(cap), c_caps[o_idx]', 'C08.alloc')
mut('C08', 'alias-order', 'sim.py', None, None, 'C08.alias', edits=[
    dict(old="        # copy memory location and capacity from stems to fanout lines\n        for lidx, stem in enumerate(stems):\n            if stem >= 0:  # if at a fanout line\n                self.c_locs[lidx], self.c_caps[lidx] = self.c_locs[stem], self.c_caps[stem]\n", new=""),
    dict(old="        self.c_len = h.max_size\n", new="        for lidx, stem in enumerate(stems):\n            if stem >= 0:  # if at a fanout line\n                self.c_locs[lidx], self.c_caps[lidx] = self.c_locs[stem], self.c_caps[stem]\n        self.c_len = h.max_size\n")])
mut('C08', 'alias-loc-only', 'sim.py', 'self.c_locs[lidx], self.c_caps[lidx] = self.c_locs[stem], self.c_caps[stem]', 'self.c_locs[lidx] = self.c_locs[stem]', 'C08.alias')
mut('C08', 'c_len-current', 'sim.py', 'self.c_len = h.max_size', 'self.c_len = h.current_size', 'C08.size')
mut('C08', 'heap-split-size', 'sim.py', 'self.chunks[loc + size] = chunksize - size', 'self.chunks[loc + size] = chunksize', 'C08.heap-tiling')
mut('C08', 'heap-tail-trim', 'sim.py', '                    del self.released[-1]\n                    self.current_size -= chunksize\n', '                    del self.released[-1]\n', 'C08.heap-tiling')
mut('C08', 'heap-max-size', 'sim.py', '        self.max_size = max(self.max_size, self.current_size)\n', '', 'C08.heap-maxsize')
mut('C08', 'heap-merge-prev', 'sim.py', '                chunksize = size + self.chunks[prev]\n                del self.chunks[loc]\n', '                chunksize = size + self.chunks[prev]\n', 'C08.heap-tiling')
mut('C08', 'caps-min-dropped', 'wave_sim.py', 'super().__init__(circuit, c_caps=c_caps, c_caps_min=4, a_ctrl=a_ctrl, c_reuse=c_reuse, strip_forks=strip_forks)', 'super().__init__(circuit, c_caps=c_caps, c_caps_min=2, a_ctrl=a_ctrl, c_reuse=c_reuse, strip_forks=strip_forks)', 'C08.alloc')
mut('C08', 'stem-one-level', 'sim.py', "                while prev_line.driver.kind == '__fork__' and prev_line.driver not in interface_dict:\n                    prev_line = prev_line.driver.ins[0]\n", '', ['C08.alias', 'C08.pins', 'C07.level'])

# ------------------------------------------------------------------ C03
mut('C03', 'arm-a-wrong-bit', 'wave_sim.py', '            a_cur += 1\n            inputs ^= 1\n', '            a_cur += 1\n            inputs ^= 2\n', ['C03.parity', 'C03.siblings'])
mut('C03', 'overflow-drops-two', 'wave_sim.py', '                    previous_t = cbuf[z_mem + z_cur - 1, sim]\n                    z_cur -= 1', '                    previous_t = cbuf[z_mem + z_cur - 1, sim]\n                    z_cur -= 2', 'C03.parity')
mut('C03', 'overflow-no-step', 'wave_sim.py', '                    previous_t = cbuf[z_mem + z_cur - 1, sim]\n                    z_cur -= 1', '                    previous_t = cbuf[z_mem + z_cur - 1, sim]', 'C03.parity')
mut('C03', 'no-tmin-for-lut1', 'wave_sim.py', '    if z_cur == 1:\n        cbuf[z_mem, sim] = TMIN\n', '', 'C03.init')
mut('C03', 'capacity-guard-off', 'wave_sim.py', 'if z_cur < (z_cap - 1):  # enough space in z_mem?', 'if z_cur < z_cap:  # enough space in z_mem?', 'C03.bounds')
mut('C03', 'filter-read-unguarded', 'wave_sim.py', 'previous_t = cbuf[z_mem + z_cur - 1, sim] if z_cur > 0 else TMIN', 'previous_t = cbuf[z_mem + z_cur - 1, sim]', 'C03.bounds')
mut('C03', 'first-edge-test-dropped', 'wave_sim.py', '            if (z_cur == 0                            # it is the first edge in z_mem ...\n                or next_t < current_t ', '            if (next_t < current_t ', 'C03.bounds')
mut('C03', 'stimulus-rf-swapped', 'wave_sim.py', 'self.c[self.pippi_c_locs] = np.choose(cond, [TMAX, sins[1], TMIN, TMIN])', 'self.c[self.pippi_c_locs] = np.choose(cond, [TMAX, TMIN, sins[1], TMIN])', 'C03.stimulus')
mut('C03', 'gpu-stimulus-one', 'wave_sim.py', '    else:\n        c[c_loc, x] = TMIN\n        c[c_loc+1, x] = TMAX\n    c[c_loc+2, x] = TMAX', '    else:\n        c[c_loc, x] = TMIN\n        c[c_loc+1, x] = ttime\n    c[c_loc+2, x] = TMAX', 'C03.stimulus')
mut('C03', 'capture-counts-terminator', 'wave_sim.py', '    for t in w:\n        if t >= TMAX:\n            if t == TMAX_OVL:\n                ovl = 1\n            break\n        m = -m\n        final ^= 1', '    for t in w:\n        final ^= 1\n        if t >= TMAX:\n            if t == TMAX_OVL:\n                ovl = 1\n            break\n        m = -m', 'C03.capture')
mut('C03', 'refresh-misses-d', 'wave_sim.py', '            c = cbuf[c_mem + c_cur, sim] + delays[c_idx, c_cur & 1, z_val]\n            d = cbuf[d_mem + d_cur, sim] + delays[d_idx, d_cur & 1, z_val]\n\n        current_t', '            c = cbuf[c_mem + c_cur, sim] + delays[c_idx, c_cur & 1, z_val]\n\n        current_t', 'C03.siblings')
mut('C03', 'arm-b-reads-a', 'wave_sim.py', '            b = cbuf[b_mem + b_cur, sim] + delays[b_idx, b_cur & 1, z_val]\n            next_t = cbuf[b_mem', '            b = cbuf[a_mem + b_cur, sim] + delays[b_idx, b_cur & 1, z_val]\n            next_t = cbuf[b_mem', 'C03.siblings')
mut('C03', 'guard-inverted-lut', 'wave_sim.py', 'if (z_cur & 1) != ((lut >> inputs) & 1):', 'if (z_cur & 1) == ((lut >> inputs) & 1):', 'C03.parity')
neutral('C03', 'n-rename-local', 'wave_sim.py', 'overflows', 'n_ovf', count='all')
neutral('C03', 'n-capacity-guard-form', 'wave_sim.py', 'if z_cur < (z_cap - 1):  # enough space in z_mem?', 'if z_cur <= z_cap - 2:')

MUTANTS = M

# ------------------------------------------------------------------ C04
mut('C04', 'delay-of-other-line', 'wave_sim.py', '            a = cbuf[a_mem + a_cur, sim] + delays[a_idx, a_cur & 1, z_val]\n            next_t', '            a = cbuf[a_mem + a_cur, sim] + delays[b_idx, a_cur & 1, z_val]\n            next_t', 'C04.provenance')
mut('C04', 'epsilon-added', 'wave_sim.py', 'or (current_t - previous_t) > thresh  # -OR-', 'or (current_t - previous_t) > thresh + 0.001  # -OR-', 'C04.dim')
mut('C04', 'literal-threshold', 'wave_sim.py', 'or (current_t - previous_t) > thresh  # -OR-', 'or (current_t - previous_t) > 0.05  # -OR-', 'C04.dim')
mut('C04', 'store-previous', 'wave_sim.py', '                    cbuf[z_mem + z_cur, sim] = current_t\n', '                    cbuf[z_mem + z_cur, sim] = previous_t\n', 'C04.provenance')
mut('C04', 'time-vs-literal', 'wave_sim.py', '                or next_t < current_t ', '                or next_t < 0 ', 'C04.dim')
mut('C04', 'polarity-index-swapped', 'wave_sim.py', '            c = cbuf[c_mem + c_cur, sim] + delays[c_idx, c_cur & 1, z_val]\n            next_t', '            c = cbuf[c_mem + c_cur, sim] + delays[c_idx, z_val, c_cur & 1]\n            next_t', 'C04.provenance')
mut('C04', 'thresh-as-time', 'wave_sim.py', '            thresh = delays[d_idx, d_cur & 1, z_val]\n', '            thresh = cbuf[d_mem + d_cur, sim]\n', ['C04.dim', 'C04.provenance'])
mut('C04', 'min-drops-operand', 'wave_sim.py', '            d = cbuf[d_mem + d_cur, sim] + delays[d_idx, d_cur & 1, z_val]\n\n        current_t = min(a, b, c, d)', '            d = cbuf[d_mem + d_cur, sim] + delays[d_idx, d_cur & 1, z_val]\n\n        current_t = min(a, b, c)', 'C04.provenance')
mut('C04', 'eat-includes-tmin', 'wave_sim.py', '        if t <= TMIN: continue\n        if s_sqrt2 > 0:\n            acc += m * (1 + math.erf((t - time) / s_sqrt2))\n        eat = min(eat, t)\n        lst = max(lst, t)\n        tog += 1\n    if s_sqrt2 > 0:\n        if m < 0:\n            acc += 1\n        if acc >= 0.99:\n            val = 1\n        elif acc > 0.01:\n            seed = (seed << 4) + (vector << 20) + int(c_loc)',
    '        eat = min(eat, t)\n        if t <= TMIN: continue\n        if s_sqrt2 > 0:\n            acc += m * (1 + math.erf((t - time) / s_sqrt2))\n        lst = max(lst, t)\n        tog += 1\n    if s_sqrt2 > 0:\n        if m < 0:\n            acc += 1\n        if acc >= 0.99:\n            val = 1\n        elif acc > 0.01:\n            seed = (seed << 4) + (vector << 20) + int(c_loc)', 'C04.capture')
mut('C04', 'time-scaled', 'wave_sim.py', '        current_t = min(a, b, c, d)\n\n    # generate', '        current_t = min(a, b, c, d) * 1\n\n    # generate', ['C04.dim', 'C04.provenance'])
neutral('C04', 'n-add-commuted', 'wave_sim.py', '    a = cbuf[a_mem + a_cur, sim] + delays[a_idx, 0, z_val]', '    a = delays[a_idx, 0, z_val] + cbuf[a_mem + a_cur, sim]')

# ------------------------------------------------------------------ C13
mut('C13', 'capture-nonstrict', 'wave_sim.py', '        if t < time:\n            val ^= 1\n        if t <= TMIN: continue\n        if s_sqrt2 > 0:\n            acc += m * (1 + math.erf((t - time) / s_sqrt2))\n        eat = min(eat, t)\n        lst = max(lst, t)\n        tog += 1\n    if s_sqrt2 > 0:\n        if m < 0:\n            acc += 1\n        if acc >= 0.99:\n            val = 1\n        elif acc > 0.01:\n            seed = (seed << 4) + (vector << 20) + (y << 1)',
    '        if t <= time:\n            val ^= 1\n        if t <= TMIN: continue\n        if s_sqrt2 > 0:\n            acc += m * (1 + math.erf((t - time) / s_sqrt2))\n        eat = min(eat, t)\n        lst = max(lst, t)\n        tog += 1\n    if s_sqrt2 > 0:\n        if m < 0:\n            acc += 1\n        if acc >= 0.99:\n            val = 1\n        elif acc > 0.01:\n            seed = (seed << 4) + (vector << 20) + (y << 1)', 'C13.capture')
mut('C13', 'ovl-any-terminator', 'wave_sim.py', '    for t in w:\n        if t >= TMAX:\n            if t == TMAX_OVL:\n                ovl = 1\n            break', '    for t in w:\n        if t >= TMAX:\n            ovl = 1\n            break', 'C13.capture')
mut('C13', 'gpu-rows-swapped', 'wave_sim.py', '    s[4, y, vector] = eat\n    s[5, y, vector] = lst', '    s[5, y, vector] = eat\n    s[4, y, vector] = lst', 'C13.capture')
mut('C13', 'overflow-not-counted', 'wave_sim.py', '                    overflows += 1\n', '', 'C13.overflow')
mut('C13', 'terminator-min', 'wave_sim.py', 'cbuf[z_mem + z_cur, sim] = TMAX_OVL if overflows > 0 else max(a, b, c, d)', 'cbuf[z_mem + z_cur, sim] = TMAX_OVL if overflows > 0 else min(a, b, c, d)', 'C13.overflow')
mut('C13', 'nrise-counts-tmin', 'wave_sim.py', 'nrise = max(0, (z_cur+1) // 2 - (cbuf[z_mem, sim] == TMIN))', 'nrise = max(0, (z_cur+1) // 2)', 'C13.count')
mut('C13', 'nfall-ceil', 'wave_sim.py', '    nfall = z_cur // 2', '    nfall = (z_cur + 1) // 2', 'C13.count')
mut('C13', 'weights-swapped', 'wave_sim.py', '                abuf[a_loc, sim] += nrise*a_wr + nfall*a_wf', '                abuf[a_loc, sim] += nrise*a_wf + nfall*a_wr', 'C13.accumulate')
mut('C13', 'gpu-weight-columns', 'wave_sim.py', '    a_wr = op[7]\n    a_wf = op[8]\n\n    nrise, nfall = _wave_eval_gpu', '    a_wr = op[8]\n    a_wf = op[7]\n\n    nrise, nfall = _wave_eval_gpu', 'C13.accumulate')
mut('C13', 'actrl-of-input-line', 'sim.py', 'ops.append((sp, o0_idx, i0_idx, i1_idx, i2_idx, i3_idx, *a_ctrl[o0_idx]))', 'ops.append((sp, o0_idx, i0_idx, i1_idx, i2_idx, i3_idx, *a_ctrl[i0_idx]))', 'C13.accumulate')
mut('C13', 'acc-unguarded', 'wave_sim.py', '            if a_loc >= 0:\n                abuf[a_loc, sim] += nrise*a_wr + nfall*a_wf', '            if a_loc > 0:\n                abuf[a_loc, sim] += nrise*a_wr + nfall*a_wf', 'C13.accumulate')
mut('C13', 'sd0-val-forced', 'wave_sim.py', '    else:\n        acc = val\n\n    return (w[0] <= TMIN)', '    else:\n        acc = val\n        val = final\n\n    return (w[0] <= TMIN)', 'C13.capture')
neutral('C13', 'n-count-form', 'wave_sim.py', '    nfall = z_cur // 2', '    nfall = z_cur >> 1')

# ------------------------------------------------------------------ C06
mut('C06', 'gpu-capture-diverges', 'wave_sim.py', '        t = c[line + tidx, vector]\n        if t >= TMAX:\n            if t == TMAX_OVL:\n                ovl = 1\n            break\n        m = -m\n        final ^= 1\n        if t < time:', '        t = c[line + tidx, vector]\n        if t >= TMAX:\n            if t == TMAX_OVL:\n                ovl = 1\n            break\n        m = -m\n        final ^= 1\n        if t <= time:', ['C06.capture'])
mut('C06', 'gpu-transfer-row', 'wave_sim.py', '    s[2, y, x] = s[8, y, x]', '    s[2, y, x] = s[7, y, x]', 'C06.transfer')
mut('C06', 'lane-offset', 'wave_sim.py', '    a = cbuf[a_mem + a_cur, sim] + delays[a_idx, 0, z_val]', '    a = cbuf[a_mem + a_cur, sim ^ 1] + delays[a_idx, 0, z_val]', 'C06.lane')
mut('C06', 'lane-in-row', 'wave_sim.py', '    z_mem = c_locs[z_idx]\n', '    z_mem = c_locs[z_idx] + (sim & 0)\n', 'C06.lane')
mut('C06', 'dataset-mode1-global', 'wave_sim.py', '            delays = delays[simctl_int[0]]', '            delays = delays[seed]', 'C06.dataset')
mut('C06', 'dataset-modulo', 'wave_sim.py', '            delays = delays[_rnd % len(delays)]', '            delays = delays[_rnd % (len(delays) - 1)]', 'C06.dataset')
mut('C06', 'sims-restrict-gpu', 'wave_sim.py', "        sims = min(sims or self.sims, self.sims)\n        for op_start, op_stop in zip(self.level_starts, self.level_stops):\n            grid_dim", "        sims = self.sims\n        for op_start, op_stop in zip(self.level_starts, self.level_stops):\n            grid_dim", 'C06.kernel')
mut('C06', 'creuse-extra-use', 'sim.py', '                cap = max(c_caps_min, c_caps[o_idx])\n', '                cap = max(c_caps_min, c_caps[o_idx]) if not c_reuse else c_caps_min\n', 'C06.options')
mut('C06', 'mock-atomic-missing', '__init__.py', '    class atomic:\n        @staticmethod\n        def add(array, idx, value):\n            old = array[idx]\n            array[idx] += value\n            return old\n', '', 'C06.mockapi')
mut('C06', 'gpu-separate-kernel', 'wave_sim.py', '_wave_eval_gpu = cuda.jit(_wave_eval, device=True)', '_wave_eval_gpu = cuda.jit(wave_eval_cpu, device=True)', 'C06.kernel')
mut('C06', 'gpu-assign-threshold', 'wave_sim.py', '    else:\n        c[c_loc, x] = TMIN\n        c[c_loc+1, x] = TMAX\n    c[c_loc+2, x] = TMAX', '    else:\n        c[c_loc, x] = ttime\n        c[c_loc+1, x] = TMAX\n    c[c_loc+2, x] = TMAX', 'C06.stimulus')
mut('C06', 'seed-lane-mix-cpu', 'wave_sim.py', '    w = c[c_loc:c_loc+c_len, vector]', '    w = c[c_loc:c_loc+c_len, vector - vector % 2]', 'C06.lane')
neutral('C06', 'n-gpu-seed-term', 'wave_sim.py', '            seed = (seed << 4) + (vector << 20) + (y << 1)', '            seed = (seed << 4) + (vector << 20) + (y << 1)  # differs from cpu on purpose')

# ------------------------------------------------------------------ C14
mut('C14', 'sdf-dict-collapse', 'sdf.py', '        cells = dict()\n        for cell_name, entries in (t for t in args if isinstance(t, tuple)):\n            cells.setdefault(cell_name, []).extend(entries)  # a file may have several CELL blocks per instance\n', '        cells = dict(t for t in args if isinstance(t, tuple))\n', 'C14.accumulate')
mut('C14', 'sdf-loop-overwrite', 'sdf.py', '            cells.setdefault(cell_name, []).extend(entries)  # a file may have several CELL blocks per instance', '            cells[cell_name] = entries', 'C14.accumulate')
mut('C14', 'polarity-swapped', 'sdf.py', "if i_pin_spec.startswith('(posedge '): i_pol_idxs = [0]\n                    elif i_pin_spec.startswith('(negedge '): i_pol_idxs = [1]", "if i_pin_spec.startswith('(posedge '): i_pol_idxs = [1]\n                    elif i_pin_spec.startswith('(negedge '): i_pol_idxs = [0]", ['C14.polarity', 'C14.landing'])
neutral('C14', 'n-record-field-names', 'sdf.py', "IOPath = namedtuple('IOPath', ['ipin', 'opin', 'r', 'f'])", "IOPath = namedtuple('IOPath', ['ipin', 'opin', 'f', 'r'])")  # the records are built and read positionally: the field names do not reach any delay
mut('C14', 'single-list-not-duplicated', 'sdf.py', '    if len(args) == 3: args.append(args[2])\n', '    if len(args) == 3: args.append([])\n', 'C14.triple')
mut('C14', 'empty-triple-differs', 'sdf.py', '            delvals = [d if len(d) > 0 else [0, 0, 0] for d in delvals]', '            delvals = [d if len(d) > 0 else [0, 0] for d in delvals]', ['C14.triple', 'C14.landing'])
mut('C14', 'dataset-axis', 'sdf.py', '            delays[line, :] = delvals\n\n        return np.moveaxis(delays, -1, 0)', '            delays[line, :] = delvals\n\n        return np.moveaxis(delays, -1, 1)', 'C14.shape')
mut('C14', 'iopath-output-pin', 'sdf.py', 'if line := cell.ins[tlib.pin_index(cell.kind, i_pin_spec)]:', 'if line := cell.ins[tlib.pin_index(cell.kind, o_pin_spec)]:', ['C14.pin', 'C14.landing'])
mut('C14', 'interconnect-wrong-fork', 'sdf.py', '                assert f1.outs[f2.ins[0].driver_pin] == f2.ins[0]\n                line = f2.ins[0]', '                assert f1.outs[f2.ins[0].driver_pin] == f2.ins[0]\n                line = f1.ins[0]', ['C14.pin', 'C14.landing'])
mut('C14', 'grammar-instance-dropped', 'sdf.py', '        | "(INSTANCE" ID? ")"', '        | "(INSTANCE" _NOB? ")"', ['C14.shape-of-entries', 'C14.grammar', 'C14.accumulate'])
mut('C14', 'triple-callback-renamed', 'sdf.py', '    def triple(args): return', '    def triples(args): return', 'C14.grammar')
neutral('C14', 'n-accumulate-defaultdict-style', 'sdf.py', '            cells.setdefault(cell_name, []).extend(entries)  # a file may have several CELL blocks per instance', '            if cell_name not in cells: cells[cell_name] = []\n            cells[cell_name] += entries')

# ------------------------------------------------------------------ C15
mut('C15', 'alias-h-is-zero', 'logic.py', "    if value in [0, '0', False, 'L', 'l']: return ZERO\n    if value in [1, '1', True, 'H', 'h']: return ONE", "    if value in [0, '0', False, 'L', 'l', 'h']: return ZERO\n    if value in [1, '1', True, 'H']: return ONE", 'C15.chars')
mut('C15', 'render-rf-swapped', 'logic.py', "[*'0X-1PRFN']", "[*'0X-1PFRN']", 'C15.chars')
mut('C15', 'np-removed-attr', 'logic.py', "dtype=np.str_)", "dtype=np.unicode_)", 'C15.npattr')
mut('C15', 'np-bool8', '__init__.py', "_pop_count_lut = np.asarray([bin(x).count('1') for x in range(256)])", "_pop_count_lut = np.asarray([bin(x).count('1') for x in range(256)], dtype=np.int0)", ['C15.npattr', 'C15.bitorder'])
mut('C15', 'bitorder-big-one-site', 'logic.py', "return packbits(np.unpackbits(bpa, axis=-1, bitorder='little').swapaxes(-1,-2))", "return packbits(np.unpackbits(bpa, axis=-1, bitorder='big').swapaxes(-1,-2))", 'C15.bitorder')
mut('C15', 'two-planes', 'logic.py', "unpackbits(mva)[...,:3]", "unpackbits(mva)[...,:2]", 'C15.bitorder')
mut('C15', 'mvarray-no-swap', 'logic.py', '    if mva.shape[-2] > 1: return mva.swapaxes(-1, -2)\n', '    if mva.shape[-2] > 1: return mva\n', 'C15.bitorder')
mut('C15', 'default-unassigned', 'logic.py', "    if value in ['N', 'n', 'v']: return NPULSE\n    return UNKNOWN", "    if value in ['N', 'n', 'v']: return NPULSE\n    return UNASSIGNED", 'C15.chars')
mut('C15', 'signed-pad-zero', 'logic.py', "a = np.pad(a, p, 'edge') if dtype.name[0] == 'i' else np.pad(a, p, 'constant', constant_values=0)", "a = np.pad(a, p, 'constant', constant_values=0)", 'C15.bitorder')
neutral('C15', 'n-alias-order', 'logic.py', "    if value in ['R', 'r', '/']: return RISE", "    if value in ['/', 'r', 'R']: return RISE")

# ------------------------------------------------------------------ C18
mut('C18', 'own-interface-order', 'stil.py', '        interface = c.s_nodes\n', "        interface = list(c.io_nodes) + [n for n in c.nodes if 'DFF' in n.kind]\n", 'C18.order')
mut('C18', 'scanmap-forward', 'stil.py', '            for n in reversed(chain[1:-1]):', '            for n in chain[1:-1]:', 'C18.chain')
mut('C18', 'scan-in-not-reversed', 'stil.py', '            scan_in_inversion = list(reversed(scan_in_inversion))\n', '', 'C18.chain')
mut('C18', 'inversion-carried-over', 'stil.py', '            scan_in_inversion = list(reversed(scan_in_inversion))\n            inversion = False\n', '            scan_in_inversion = list(reversed(scan_in_inversion))\n', 'C18.chain')
mut('C18', 'so-inversion-is-si', 'stil.py', 'scan_inversions[chain[-1]] = logic.mvarray(scan_out_inversion)', 'scan_inversions[chain[-1]] = logic.mvarray(scan_in_inversion)', 'C18.chain')
mut('C18', 'inversion-scalar', 'stil.py', 'scan_inversions[chain[0]] = logic.mvarray(scan_in_inversion)', 'scan_inversions[chain[0]] = logic.mvarray(scan_in_inversion)[0]', 'C18.rank')
mut('C18', 'loc-load-diverges', 'stil.py', '                np.bitwise_xor(pattern, inversions, out=pattern)\n                init[scan_maps[si_port], i] = pattern', '                init[scan_maps[si_port], i] = pattern', 'C18.twins')
mut('C18', 'responses-wrong-map', 'stil.py', 'resp[scan_maps[so_port], i] = pattern', 'resp[scan_maps[so_port][::-1], i] = pattern', 'C18.twins')
mut('C18', 'transition-swapped', 'logic.py', '    out[...] = (init & 0b010) | (final & 0b001)', '    out[...] = (final & 0b010) | (init & 0b001)', 'C18.transition')
mut('C18', 'transition-no-unassigned', 'logic.py', '    np.putmask(out, unknown, UNKNOWN)\n    np.putmask(out, unassigned, UNASSIGNED)\n    return out', '    np.putmask(out, unassigned, UNASSIGNED)\n    np.putmask(out, unknown, UNKNOWN)\n    return out', 'C18.transition')
mut('C18', 'grammar-bang-filtered', 'stil.py', 'scan_cells: "ScanCells" (quoted | /!/)* ";"', 'scan_cells: "ScanCells" (quoted | "!")* ";"', 'C18.grammar')
mut('C18', 'si-port-last', 'stil.py', 'self.si_ports = dict((v[0], k) for k, v in scan_chains.items())', 'self.si_ports = dict((v[-1], k) for k, v in scan_chains.items())', 'C18.chain')
mut('C18', 'pi-through-po-map', 'stil.py', "            tests[pi_map, i] = logic.mvarray(p.capture['_pi'])", "            tests[po_map, i] = logic.mvarray(p.capture['_pi'])", 'C18.twins', edits=[dict(old="        interface, pi_map, _, scan_maps, scan_inversions = self._maps(circuit)\n        tests =", new="        interface, pi_map, po_map, scan_maps, scan_inversions = self._maps(circuit)\n        tests ="), dict(old="            tests[pi_map, i] = logic.mvarray(p.capture['_pi'])", new="            tests[po_map, i] = logic.mvarray(p.capture['_pi'])")])
neutral('C18', 'n-interface-list', 'stil.py', '        interface = c.s_nodes\n', '        interface = list(c.s_nodes)\n')

# ------------------------------------------------------------------ C20
mut('C20', 'wires-int-none', 'def_file.py', '(int(dw.width) if dw.width is not None else None, dw.wire_points)', '(int(dw.width), dw.wire_points)', 'C20.none')
mut('C20', 'routed-not-initialised', 'def_file.py', '        self.pins = []\n        self.routed = []\n', '        self.pins = []\n', ['C20.none', 'C20.options'])
mut('C20', 'wirepoints-unresolved', 'def_file.py', '            pts.append((prev[0] if p[0] is None else p[0], prev[1] if p[1] is None else p[1]) + tuple(p[2:]))  # if None, keep previous value', '            pts.append(p)', 'C20.none')
mut('C20', 'vias-y-uses-x', 'def_file.py', 'loc = (loc[0] if p[0] is None else p[0], loc[1] if p[1] is None else p[1])  # if None, keep previous value', 'loc = (loc[0] if p[0] is None else p[0], loc[1] if p[0] is None else p[1])  # if None, keep previous value', 'C20.symmetry')
mut('C20', 'array-step-swapped', 'def_file.py', "(loc[0] + x*x_sp, loc[1] + y*y_sp, 'N')", "(loc[0] + x*y_sp, loc[1] + y*x_sp, 'N')", 'C20.symmetry')
mut('C20', 'array-square', 'def_file.py', 'for x in range(x_cnt) for y in range(y_cnt)]', 'for x in range(x_cnt) for y in range(x_cnt)]', 'C20.symmetry')
mut('C20', 'row-origin-shifted', 'def_file.py', '(int(args[3]), int(args[4])),  # origin x/y', '(int(args[2]), int(args[3])),  # origin x/y', ['C20.positions', 'C20.grammar'])
mut('C20', 'grammar-keyword-renamed', 'def_file.py', '            | "+" /PLACED/ point ID', '            | "+" /FIXED/ point ID', 'C20.options')
mut('C20', 'grammar-comp-extra-token', 'def_file.py', 'comp_stmt: "-" ID ID "+" "PLACED" point ID ";"', 'comp_stmt: "-" ID ID "+" /PLACED/ point ID ";"', ['C20.positions', 'C20.grammar'])
mut('C20', 'tracks-extra-child', 'def_file.py', '| /TRACKS/ /[XY]/ NUMBER "DO" NUMBER "STEP" NUMBER "LAYER" ID ";"', '| /TRACKS/ /[XY]/ NUMBER /DO/ NUMBER "STEP" NUMBER "LAYER" ID ";"', ['C20.positions', 'C20.grammar'])
mut('C20', 'nets-into-specialnets', 'def_file.py', '        self.def_file.nets[dnet.name] = dnet', '        self.def_file.specialnets[dnet.name] = dnet', ['C20.positions', 'C20.twins'])
mut('C20', 'wire-layer-wrong-child', 'def_file.py', "    def wire(self, args):\n        wire = DefWire()\n        wire.layer = args[0].value", "    def wire(self, args):\n        wire = DefWire()\n        wire.layer = args[1].value", ['C20.twins', 'C20.grammar'])
mut('C20', 'callback-renamed', 'def_file.py', '    def net_pin(self, args):', '    def netpin(self, args):', 'C20.grammar')
mut('C20', 'points-via-index', 'def_file.py', "        if len(args) == 1: return args[0].value, 'N'\n        else: return args[0].value, args[1].value.strip()", "        return args[0].value, args[1].value.strip()", ['C20.grammar', 'C20.twins'])
neutral('C20', 'n-wires-loop-form', 'def_file.py', '        [vv[vtype].extend(locs) for dw in self.routed for vtype, locs in dw.vias.items()]\n        return vv', '        [vv[vtype].extend(locs) for dw in self.routed for vtype, locs in dw.vias.items()]\n        # aggregated per via type\n        return vv')

# ------------------------------------------------------------------ C08 allocator (symbolic path analysis)
mut('C08', 'heap-merge-nonadjacent', 'sim.py', '            if prev + self.chunks[prev] == loc:  # previous chunk is adjacent to freed one, merge', '            if prev + self.chunks[prev] >= loc:  # previous chunk is adjacent to freed one, merge', 'C08.heap-tiling')
mut('C08', 'heap-merge-next-cond', 'sim.py', 'if released_idx < len(self.released) and loc + size == self.released[released_idx]:  # next chunk is free, merge', 'if released_idx < len(self.released) and loc + size <= self.released[released_idx]:  # next chunk is free, merge', ['C08.heap-tiling', 'C08.heap-keys'])
mut('C08', 'heap-split-position', 'sim.py', '                self.chunks[loc + size] = chunksize - size\n                self.released[idx] = loc + size', '                self.chunks[loc + size] = chunksize - size\n                self.released[idx] = loc + chunksize - size', 'C08.heap-released')
mut('C08', 'heap-exact-fit-not-unlisted', 'sim.py', '            if self.chunks[loc] == size:\n                del self.released[idx]\n                return loc', '            if self.chunks[loc] == size:\n                return loc', 'C08.heap-returned')
mut('C08', 'heap-returns-bigger-request', 'sim.py', '            if self.chunks[loc] > size:  # split chunk', '            if self.chunks[loc] > size - 2:  # split chunk', ['C08.heap-returned', 'C08.heap-tiling'])
mut('C08', 'heap-tail-prev-not-unlisted', 'sim.py', '                    del self.chunks[prev]\n                    del self.released[-1]\n', '                    del self.chunks[prev]\n', 'C08.heap-released')
mut('C08', 'heap-merge-prev-not-unlisted', 'sim.py', '                self.chunks[prev] = chunksize\n                del self.released[released_idx]', '                self.chunks[prev] = chunksize', 'C08.heap-released')
mut('C08', 'heap-free-not-listed', 'sim.py', '        else:\n            insort_left(self.released, loc)  # put in a new release', '        else:\n            pass', 'C08.heap-released')
mut('C08', 'heap-merge-next-keeps-entry', 'sim.py', '            self.released[released_idx] = loc\n', '', 'C08.heap-released')
neutral('C08', 'n-heap-local-name', 'sim.py', 'chunksize', 'csz', count='all')

mut('C12', 'inplace-accumulate-shape', 'logic.py', '    for inp in ins[1:]: any_zero = any_zero | (inp == ZERO)', '    for inp in ins[1:]: any_zero |= (inp == ZERO)', 'C12.broadcast')
mut('C12', 'bp-inplace-accumulate-shape', 'logic.py', '    for inp in ins[1:]: any_unknown = any_unknown | (inp[..., 0, :] ^ inp[..., 1, :])\n    any_one = ins[0][..., 0, :] & ins[0][..., 1, :]\n', '    for inp in ins[1:]: any_unknown |= inp[..., 0, :] ^ inp[..., 1, :]\n    any_one = ins[0][..., 0, :] & ins[0][..., 1, :]\n', 'C12.broadcast')

# ------------------------------------------------------------------ rules added after the sub-agent round
mut('C18', 'launch-not-reset', 'stil.py', '                    capture = {}\n                    launch = {}\n', '                    capture = {}\n', 'C18.extract')
mut('C18', 'sload-not-reset', 'stil.py', '                sload = {}\n                for si_port in self.si_ports:', '                for si_port in self.si_ports:', 'C18.extract')
mut('C18', 'pattern-field-order', 'stil.py', 'self.patterns.append(ScanPattern(sload, launch, capture, unload))', 'self.patterns.append(ScanPattern(sload, capture, launch, unload))', 'C18.extract')
mut('C20', 'step-sign-dropped', 'def_file.py', 'do_step: "DO" NUMBER "BY" NUMBER "STEP" (NUMBER|SIGNED_NUMBER) (NUMBER|SIGNED_NUMBER)', 'do_step: "DO" NUMBER "BY" NUMBER "STEP" "-"? NUMBER "-"? NUMBER', 'C20.positions')
mut('C10', 'sub-remove-without-detach', 'circuit.py', '                ll.reader = None\n                ll.remove()', '                ll.remove()', 'C10.pins')
mut('C09', 'sub-remove-without-detach', 'circuit.py', '                ll.reader = None\n                ll.remove()', '                ll.remove()', 'C10.pins')
mut('C16', 'dff-qn-from-q-line', 'sim.py', 'ops.append((INV1, n.outs[1].index, inp_idx, self.zero_idx', 'ops.append((INV1, n.outs[1].index, n.outs[0].index, self.zero_idx', 'C01.wiring')
mut('C06', 'strip-port-forks', 'sim.py', '                if f in interface_dict: continue  # port forks (e.g. from bench) are evaluated as PI/PPI, their outputs are no branches\n', '', ['C08.alias', 'C07.level', 'C08.pins', 'C07.release'])
mut('C01', 'release-inside-op-loop', 'sim.py', '                self.c_locs[o_idx], self.c_caps[o_idx] = h.alloc(cap), cap\n            if c_reuse:\n                for loc in free_set:\n                    h.free(loc)', '                self.c_locs[o_idx], self.c_caps[o_idx] = h.alloc(cap), cap\n                if c_reuse:\n                    for loc in free_set:\n                        h.free(loc)\n                    free_set = set()', 'C07.release')
mut('C05', 'overflow-parity-lost', 'wave_sim.py', '                    previous_t = cbuf[z_mem + z_cur - 1, sim]\n                    z_cur -= 1', '                    previous_t = cbuf[z_mem + z_cur - 1, sim]', 'C03.parity')

# ------------------------------------------------------------------ C11 (structural necessary conditions only)
mut('C11', 'range-descending-off', 'verilog.py', 'return range(left, right+1) if left <= right else range(left, right-1, -1)', 'return range(left, right+1) if left <= right else range(left, right, -1)', 'C11.range')
mut('C11', 'range-always-ascending', 'verilog.py', 'return range(left, right+1) if left <= right else range(left, right-1, -1)', 'return range(min(left, right), max(left, right)+1)', 'C11.range')
mut('C11', 'const-lsb-first', 'verilog.py', "                l.insert(0, \"1'b1\" if (const & 1) else \"1'b0\")", "                l.append(\"1'b1\" if (const & 1) else \"1'b0\")", 'C11.const')
mut('C11', 'const-hex-base', 'verilog.py', "{'b': 2, 'd':10, 'h':16}", "{'b': 2, 'd':10, 'h':8}", 'C11.const')
mut('C11', 'pin-index-of-kind', 'verilog.py', 'Line(c, fork, (n, self.tlib.pin_index(stmt.type, p)))', 'Line(c, fork, (n, self.tlib.pin_index(stmt.type, s)))', 'C11.pins')
mut('C11', 'output-pin-direction', 'verilog.py', '                    if self.tlib.pin_is_output(n.kind, p): continue', '                    if not self.tlib.pin_is_output(n.kind, p): continue', 'C11.pins')
mut('C11', 'port-position-not-advanced', 'verilog.py', '                positions[name] = pos\n                pos += 1', '                positions[name] = pos\n            pos += 1', 'C11.ports')
mut('C11', 'escaped-name-keeps-blank', 'verilog.py', "return s[1:-1] if s[0] == '\\\\' else s", "return s[1:] if s[0] == '\\\\' else s", 'C11.names')
mut('C11', 'names-reversed', 'verilog.py', "return [f'{self.basename}[{i}]' for i in self.rnge]", "return [f'{self.basename}[{i}]' for i in sorted(self.rnge)]", 'C11.decl')
mut('C11', 'bench-drivers-reversed', 'bench.py', '        for d in drivers: Line(self.c, d, cell)', '        for d in reversed(drivers): Line(self.c, d, cell)', 'C11.bench')
mut('C11', 'branchfork-extra-effect', 'verilog.py', '                        Line(c, fork, branchfork)\n                        fork = branchfork', '                        Line(c, fork, branchfork)', 'C11.pins')
mut('C11', 'positional-pin-offset', 'verilog.py', '                pinmap[idx] = p', '                pinmap[idx + 1] = p', 'C11.pins')
mut('C11', 'inout-as-output', 'verilog.py', '    def inout(self, args): return self.declaration("input", args)  # just treat as input', '    def inout(self, args): return self.declaration("output", args)', 'C11.decl')
mut('C11', 'grammar-range-sep-kept', 'verilog.py', 'range: "[" /[0-9]+/ (":" /[0-9]+/)? "]"', 'range: "[" /[0-9]+/ (/:/ /[0-9]+/)? "]"', ['C11.grammar', 'C11.lexical'])
mut('C11', 'concat-callback-renamed', 'verilog.py', '    def concat(self, args):', '    def concatenation(self, args):', 'C11.grammar')
neutral('C11', 'n-comment', 'verilog.py', '        for decls in args[2:]:  # pass 0: collect signal declarations', '        for decls in args[2:]:  # pass 0 - declarations')
mut('C06', 'hash-int32-overflow', 'wave_sim.py', '_rnd = (int(seed) << 4) + (int(z_idx) << 20) + int(simctl_int[0])', '_rnd = (seed << 4) + (z_idx << 20) + simctl_int[0]', 'C06.dataset')


# ------------------------------------------------------------------ stored sub-agent seeds and refactorings
# Every confirmed property-breaking change under seeded/<PROP>-.../patch.diff is a corpus mutant of <PROP> (any rule), and
# every behaviour-preserving refactoring under refactorings/<id>/patch.diff is a neutral entry for each property whose check is
# recorded as silent on it in refactorings/STATUS.json (the residual alarms listed there are known limitations, see DESIGN.md).
def _stored():
    import json
    import os
    verif = os.path.dirname(os.path.dirname(os.path.abspath(__file__)))
    sd = os.path.join(verif, 'seeded')
    for d in sorted(os.listdir(sd)) if os.path.isdir(sd) else []:
        pf = os.path.join(sd, d, 'patch.diff')
        if os.path.isfile(pf):
            e = dict(prop=d.split('-')[0], id=f'seed:{d}', patch=pf, rule=None)
            mp = os.path.join(sd, d, 'meta.json')
            if os.path.isfile(mp):
                meta = json.load(open(mp))
                if not meta.get('caught_by_own_check') and e['prop'] in meta.get('analysis_error_in', []):
                    e['undecided'] = True      # recorded as "not decided by the (partial) check": exit 2 is the expected answer
            M.append(e)
    rd = os.path.join(verif, 'refactorings')
    st = {}
    if os.path.isfile(os.path.join(rd, 'STATUS.json')):
        st = json.load(open(os.path.join(rd, 'STATUS.json')))
    props = [f'C{k:02d}' for k in range(1, 21)]
    for d in sorted(os.listdir(rd)) if os.path.isdir(rd) else []:
        pf = os.path.join(rd, d, 'patch.diff')
        if not os.path.isfile(pf):
            continue
        residual = st.get('residual_alarms', {}).get(d, {})
        if 'apply' in residual:
            continue
        touched = {l.split('/')[-1].strip() for l in open(pf) if l.startswith('+++ ')}
        for p in props:
            if p in residual:
                continue
            # only where the refactoring touches a file the check consults is the entry informative; keep the own property and close relatives
            if p == d.split('-')[0] or (touched & {'sim.py', 'wave_sim.py'} and p in ('C03', 'C06', 'C07', 'C08')) or (touched & {'circuit.py'} and p in ('C09', 'C10', 'C17')):
                M.append(dict(prop=p, id=f'refactoring:{d}', patch=pf, neutral=True))


import os as _os
if not _os.environ.get('KV_SELFTEST_HAND'):      # KV_SELFTEST_HAND=1: only the hand-written entries (the stored seeds / refactorings have their own regression tools)
    _stored()
mut('C06', 'gpu-transfer-also-ports', 'wave_sim.py', "    if y < ppio_start: return  # only state elements", "    # if y < ppio_start: return  # only state elements", 'C06.transfer')


def _on_refactoring(prop, id, ref, file, old, new, rule):
    import os
    verif = os.path.dirname(os.path.dirname(os.path.abspath(__file__)))
    M.append(dict(prop=prop, id=id, patch=os.path.join(verif, 'refactorings', ref, 'patch.diff'), then=[dict(file=file, old=old, new=new)], rule=rule))


# breaks applied on top of a stored behaviour-preserving refactoring: the normalisation that accepts the refactoring must not hide them
_on_refactoring('C02', 'hb5+wrong-invert', 'HB-5', 'logic_sim.py', 'if op == sim.AOI21: logic.bp4v_not', 'if op == sim.AO21: logic.bp4v_not', 'C02.comp')
_on_refactoring('C02', 'hb5+wrong-pair', 'HB-5', 'logic_sim.py', 'elif op == sim.OA22 or op == sim.OAI22:', 'elif op == sim.OA22 or op == sim.OAI211:', 'C02.comp')
_on_refactoring('C02', 'hb5+view-alias', 'HB-5', 'logic_sim.py', 'logic.bp4v_and(scratch, self.c[i1], self.c[i2])', 'logic.bp4v_and(scratch, self.c[i1], scratch)', ['C02.alias', 'C02.bool'])

# the evaluated stimulus rule (Engine M with array stand-ins): breaks of the refactored kernel (HX-5) and of the vector code
_on_refactoring('C03', 'hx5+second-swapped', 'HX-5', 'wave_sim.py', 'second = TMAX if final else ttime', 'second = ttime if final else TMAX', 'C03.stimulus')
_on_refactoring('C03', 'hx5+first-polarity', 'HX-5', 'wave_sim.py', 'first = ttime if final else TMAX', 'first = TMAX if final else ttime', 'C03.stimulus')
_on_refactoring('C06', 'hx5+guard-lost', 'HX-5', 'wave_sim.py', 'if c_loc < 0 or x >= c.shape[-1]: return\n    final', 'if x >= c.shape[-1]: return\n    final', 'C06.stimulus')
_on_refactoring('C03', 'hx5+initial-row', 'HX-5', 'wave_sim.py', 'initial = int(s[0, y, x] >= 0.5)', 'initial = int(s[1, y, x] >= 0.5)', 'C03.stimulus')
mut('C03', 'cpu-stimulus-where-form-wrong', 'wave_sim.py', 'self.c[self.pippi_c_locs+1] = np.choose(cond, [TMAX, TMAX, sins[1], TMAX])', 'self.c[self.pippi_c_locs+1] = np.where(cond == 2, sins[1], np.where(cond == 1, TMIN, TMAX))', 'C03.stimulus')
mut('C03', 'cpu-stimulus-rows-of-all-positions', 'wave_sim.py', 'sins = self.s[:, self.pippi_s_locs]', 'sins = self.s[:, :len(self.pippi_s_locs)]', 'C03.stimulus')
mut('C06', 'gpu-launch-grid-over-ports-only', 'wave_sim.py', '        grid_dim = self._grid_dim(self.sims, self.s_len)\n        wave_assign_gpu', '        grid_dim = self._grid_dim(self.sims, len(self.circuit.io_nodes))\n        wave_assign_gpu', 'C06.stimulus')
neutral('C03', 'n-cpu-stimulus-where-form', 'wave_sim.py', 'self.c[self.pippi_c_locs+1] = np.choose(cond, [TMAX, TMAX, sins[1], TMAX])', 'self.c[self.pippi_c_locs+1] = np.where(cond == 2, sins[1], TMAX)')
neutral('C03', 'n-cpu-stimulus-loop-form', 'wave_sim.py', """        sins = self.s[:, self.pippi_s_locs]
        cond = (sins[2] != 0) + 2*(sins[0] != 0)  # choices order: 0 R F 1
        self.c[self.pippi_c_locs] = np.choose(cond, [TMAX, sins[1], TMIN, TMIN])
        self.c[self.pippi_c_locs+1] = np.choose(cond, [TMAX, TMAX, sins[1], TMAX])
        self.c[self.pippi_c_locs+2] = TMAX
""", """        for s_loc, c_loc in zip(self.pippi_s_locs, self.pippi_c_locs):
            for lane in range(self.sims):
                initial, ttime, final = self.s[0, s_loc, lane] != 0, self.s[1, s_loc, lane], self.s[2, s_loc, lane] != 0
                wave = ([TMIN] if initial else []) + ([ttime] if initial != final else []) + [TMAX, TMAX, TMAX]
                for k in range(3):
                    self.c[c_loc + k, lane] = wave[k]
""")
mut('C06', 'capture-seed-raw-cloc', 'wave_sim.py', 'seed = (seed << 4) + (vector << 20) + int(c_loc)', 'seed = (seed << 4) + (vector << 20) + c_loc', 'C06.capture')   # F19
mut('C06', 'capture-seed-raw-via-temp', 'wave_sim.py', 'seed = (seed << 4) + (vector << 20) + int(c_loc)', 'base = c_loc + (vector << 20)\n            seed = (seed << 4) + base', 'C06.capture')
neutral('C06', 'n-capture-seed-all-int', 'wave_sim.py', 'seed = (seed << 4) + (vector << 20) + int(c_loc)', 'seed = (int(seed) << 4) + (int(vector) << 20) + int(c_loc)')
mut('C10', 'substitute-prunes-early', 'circuit.py', "                if l.driver in node_map:\n                    unused.append(node_map[l.driver])\n                continue", "                if l.driver in node_map:\n                    self.remove_dangling_nodes(node_map[l.driver])\n                continue", 'C10.function')   # F16

mut('C11', 'onebit-bus-bare-name', 'verilog.py', "                    if s not in c.forks and s in sig_decls and len(sig_decls[s].names) == 1:\n                        s = sig_decls[s].names[0]  # a 1-bit bus read by its bare name\n", "", 'C11.netlist')   # F17
mut('C10', 'substitute-fork-gap', 'circuit.py', "            if n.circuit is not None and n.kind == '__fork__' and any(l is None for l in n.outs):", "            if False and n.kind == '__fork__' and any(l is None for l in n.outs):", 'C10.function')   # F18


# rules that are decided by evaluation when the code is inside the evaluator subset report under the evaluated rule's id
_EVALUATED_ALIAS = {
    'C11': ({'C11.range', 'C11.decl', 'C11.ports', 'C11.pins', 'C11.const', 'C11.names'}, 'C11.netlist'),
    'C18': ({'C18.chain', 'C18.rank', 'C18.order', 'C18.grammar'}, 'C18.maps'),
    'C14': ({'C14.accumulate', 'C14.triple'}, 'C14.records'),
    'C13': ({'C13.accumulate', 'C13.count'}, 'C13.count'),
    'C20': ({'C20.positions', 'C20.options', 'C20.twins', 'C20.grammar'}, 'C20.extract'),
    'C09': ({'C09.ctor', 'C09.remove', 'C09.containers', 'C09.backref', 'C10.copy', 'C10.pickle', 'C10.elim', 'C10.pins', 'C10.keys', 'C10.names', 'C10.sub-shape'}, 'C09.history'),
    'C10': ({'C10.copy', 'C10.pickle', 'C10.elim', 'C10.pins', 'C10.keys', 'C10.names', 'C10.sub-shape', 'C10.resolve', 'C09.remove', 'C09.ctor'}, 'C10.function'),
}
# second table: rules whose statement templates are not applied when the evaluated kernel / capture / constructor rules ran
_EVALUATED_ALIAS2 = [
    ({'C03.init'}, ['C03.kernel-eval']),
    ({'C13.overflow', 'C13.count'}, ['C13.kernel-eval']),
    ({'C04.provenance', 'C04.typing'}, ['C04.kernel-eval']),
    ({'C03.parity', 'C03.bounds', 'C03.siblings'}, ['C03.kernel-eval']),
    ({'C06.dataset', 'C13.accumulate', 'C06.kernel', 'C08.alloc'}, ['C06.dataset', 'C13.accumulate', 'C06.kernel', 'C08.alloc']),
]
for _m in M:
    if _m.get('rule'):
        _r = list(_m['rule']) if isinstance(_m['rule'], (list, tuple)) else [_m['rule']]
        for _from, _to in _EVALUATED_ALIAS2:
            if set(_r) & _from:
                _r += [x for x in _to if x not in _r]
        _m['rule'] = _r
for _m in M:
    _al = _EVALUATED_ALIAS.get(_m.get('prop'))
    if _al and _m.get('rule'):
        _r = _m['rule'] if isinstance(_m['rule'], (list, tuple)) else [_m['rule']]
        if set(_r) & _al[0] and _al[1] not in _r:
            _m['rule'] = list(_r) + [_al[1]] + (['C09.history', 'C10.function'] if _m.get('prop') in ('C09', 'C10') else []) + (['C18.extract'] if _m.get('prop') == 'C18' else [])
