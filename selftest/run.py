#!/venv/bin/python
"""Checker self-validation: applies each mutant (and each neutral edit) of selftest/mutants.py to a scratch copy of
/repo/src/kyupy outside /repo and /verif, runs the property's check with --root on it and requires
  mutant  -> exit 1 with a VIOLATION of the expected rule
  neutral -> exit 0
Scratch copies are removed. Usage: run.py [PROP ...] [--jobs N] [--only id-substring]
"""
import argparse
import os
import shutil
import subprocess
import sys
import tempfile
from concurrent.futures import ThreadPoolExecutor

HERE = os.path.dirname(os.path.abspath(__file__))
VERIF = os.path.dirname(HERE)
sys.path.insert(0, HERE)
SRC = os.environ.get('KV_ROOT', '/repo/src/kyupy')


def apply_edit(root, m):
    p = os.path.join(root, m['file'])
    s = open(p).read()
    old, new = m['old'], m['new']
    cnt = s.count(old)
    want = m.get('count', 1)
    if cnt < 1 or (want != 'all' and cnt != want):
        return f'pattern occurs {cnt} times (expected {want}) in {m["file"]}: {old[:60]!r}'
    if want == 'all':
        s = s.replace(old, new)
    else:
        nth = m.get('nth')
        if nth is None:
            s = s.replace(old, new)
        else:
            parts = s.split(old)
            s = old.join(parts[:nth + 1]) + new + old.join(parts[nth + 1:])
    open(p, 'w').write(s)
    try:
        compile(s, p, 'exec')
    except SyntaxError as e:
        return f'mutant does not compile: {e}'
    return None


def run_one(m):
    tmp = tempfile.mkdtemp(prefix='kvmut_')
    root = os.path.join(tmp, 'kyupy')
    try:
        shutil.copytree(SRC, root)
        edits = m.get('edits') or [m]
        if m.get('patch'):
            r = subprocess.run(['patch', '-p3', '-s', '-d', root, '-i', m['patch']], capture_output=True, text=True)
            if r.returncode:
                return m, 'STALE', f'patch {m["patch"]} does not apply: {(r.stdout + r.stderr)[-200:]}'
            edits = m.get('then') or []     # edits on top of the patch (a refactoring, then a break)
        for e in edits:
            err = apply_edit(root, dict(e, file=e.get('file', m.get('file'))))
            if err:
                return m, 'STALE', err
        r = subprocess.run([os.path.join(VERIF, 'check'), m['prop'], '--root', root, '--tier', 'quick'], capture_output=True, text=True, timeout=300,
                           env=dict(os.environ, KV_REPLAY_DIR=os.path.join(tmp, 'replay')))
        out = r.stdout + r.stderr
        if m.get('neutral'):
            return m, ('OK' if r.returncode == 0 else 'FALSE-ALARM'), out if r.returncode else ''
        if m.get('undecided'):
            return m, ('OK' if r.returncode == 2 else ('MISSED' if r.returncode == 0 else 'NOW-DETECTED')), out
        if r.returncode == 1 and 'VIOLATION' in out:
            exp = m.get('rule')
            if exp is None or f'[{exp}]' in out or any(f'[{x}]' in out for x in (exp if isinstance(exp, (list, tuple)) else [exp])):
                return m, 'OK', ''
            return m, 'WRONG-RULE', out
        return m, ('MISSED' if r.returncode == 0 else f'EXIT{r.returncode}'), out
    finally:
        shutil.rmtree(tmp, ignore_errors=True)


def main():
    ap = argparse.ArgumentParser()
    ap.add_argument('props', nargs='*')
    ap.add_argument('--jobs', type=int, default=min(16, os.cpu_count() or 4))
    ap.add_argument('--only', default=None)
    ap.add_argument('-v', action='store_true')
    args = ap.parse_args()
    import mutants
    ms = mutants.MUTANTS
    if args.props:
        ps = {p.upper() for p in args.props}
        ms = [m for m in ms if m['prop'] in ps]
    if args.only:
        ms = [m for m in ms if args.only in m['id']]
    bad = 0
    with ThreadPoolExecutor(args.jobs) as ex:
        for m, status, out in ex.map(run_one, ms):
            tag = 'neutral' if m.get('neutral') else 'mutant '
            print(f'{status:11s} {tag} {m["prop"]} {m["id"]}')
            if status != 'OK':
                bad += 1
                if args.v or status in ('STALE',):
                    print('    ' + '\n    '.join(out.strip().splitlines()[-12:]))
    print(f'SELFTEST {len(ms) - bad}/{len(ms)} as expected')
    return 1 if bad else 0


if __name__ == '__main__':
    sys.exit(main())
